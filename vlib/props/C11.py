"""C11 — Kepler's equation is solved; two-body relations hold."""
import math
from fractions import Fraction as Fr
from vlib import common as K
from vlib.impl import load

ID = "C11"
MODULES = K.mods("base", "Angle", "Epoch", "Interpolation", "Coordinates")
REQUIRED = ["kepler_equation", "velocity", "velocity_perihelion", "velocity_aphelion", "length_orbit",
            "passage_nodes_elliptic", "passage_nodes_parabolic", "phase_angle", "illuminated_fraction",
            "iint", "Angle.__init__", "Angle.set", "Angle.reduce_deg", "Angle.rad", "Angle.__rsub__",
            "Epoch.__add__"]
THEOREMS = ["C11_kepler", "C11_kepler_refuses", "C11_bisection_spec", "C11_halvings", "C11_visviva", "C11_length", "C11_length_switch",
            "C11_phase", "C11_nodes_elliptic", "C11_nodes_parabolic"]
PROOF_TIMEOUT = {"quick": 1500, "thorough": 3000}
EXHAUSTIVE = False
MANIFEST = {
    "category": "proof",
    "text": "T4 + loop invariant (ideal real arithmetic): the regenerated kepler_equation is run symbolically through all five control-flow paths of its anomaly reduction for EVERY 0 <= e < 1 and EVERY real mean anomaly; the generated `while` loop is shown (symbolic evaluation of its body with symbolic state) to satisfy the step/leave equations of the hand-written binary search Spec.Kepler.bisect, whose bracket invariant gives residual <= (1+e) 1e-10 rad < 5e-8 deg, E in the half turn of M, tan(v/2) = sqrt((1+e)/(1-e)) tan(E/2), exactly 34 halvings. velocity*/length_orbit/phase_angle/illuminated_fraction/passage_nodes_* are evaluated to closed forms and the two-body relations proved by field/nra/interval. Bit-exact correspondence of the binary64 model with the implementation every run; Python oracle of every clause on the implementation.",
    "technique": "symbolic evaluation of the generated model in the real-number instance (call-by-value pyrun variant, Angle constructor characterised once) + induction over the fuel of the generated loop against a hand-written bisection spec (bracket invariant, Lipschitz bound of E - e sin E, strict monotonicity, IVT existence) + field/nra/interval for the closed-form relations + bit-exact differential correspondence + property oracle search",
    "design_ref": "8/C11",
}
EXPLANATION = ("kepler_equation regenerated from /repo is evaluated symbolically over the reals: the reduction of M (sign, "
               "turns, reflection at 180 deg) on its five paths, the `while` loop by induction over its fuel against the "
               "hand-written bisection Spec.Kepler.bisect (bracket kg(E-2d) <= m <= kg(E+2d) kept, |E-ef| = 2d, leaves when "
               "2d <= 1e-10, i.e. after 34 halvings), then Angle(E), v.  velocity/length/phase/node functions are reduced "
               "to closed forms and the relations proved with field, nra, interval.")
CLAUSES = {
    "E - e sin E = M (mod 360) to 5e-8 deg, every e in [0,1), every real M (any sign / number of turns)":
        "proved [ideal, C11_kepler; bound (1+e)*1e-10 rad]; binary64 searched (5e-8 deg)",
    "E lies in the same half revolution as M": "proved [ideal, C11_kepler: sign of E = sign of M reduced to (-180,180]]; binary64 searched LITERALLY (exact rational reduction of M and E, halves [0,180] and [180,360]) also for M within 1e-10..1e-5 of k*180; only for M exactly on a boundary may E sit on either side of it",
    "tan(v/2) = sqrt((1+e)/(1-e)) tan(E/2), v in the half revolution of E": "proved [ideal, C11_kepler]; binary64 searched (atan2 form, 1e-9 deg)",
    "an eccentricity outside [0,1) (e < 0, e >= 1: parabolic/hyperbolic) is refused with ValueError (guard of /repo b141fbd; e = 1.0 used to raise ZeroDivisionError)":
        "proved [ideal, C11_kepler_refuses]; binary64 searched (e in {1, 1+ulp, 1.5, -ulp, -0.5, 1e300, inf, int 1, int 2, int -1}); e = nan is not refused (both comparisons are false) and runs the loop - outside the property's quantifier",
    "kepler_equation never raises / never runs out of loop fuel for e in [0,1)": "proved [ideal, C11_kepler (result is a pair of Angles), C11_halvings: exactly 34 halvings]",
    "the loop is the bisection of the spec; n-th estimate within 2 d/2^n of the unique root": "proved [spec, C11_bisection_spec; bridge = step/leave equations of the generated fix, inside C11_kepler]",
    "speed at r = a(1-e), a(1+e) equals perihelion/aphelion speed (to the 4e-6 relative disagreement of the literals 42.1218/sqrt2 vs 29.7847)":
        "proved [ideal, C11_visviva]; binary64 searched.  The property text gives no number for 'equals': 4e-6 (relative) is not a tolerance of ours but the measured disagreement of the library's own constants, 42.1218/sqrt(2) = 29.784614 against 29.7847 (3.008e-6, theorem literals_agree); with consistent constants the relation is exact in the ideal instance.  The oracle uses 4e-6*v (+1e-9*v_perihelion at aphelion for the cancellation in 1/r - 1/(2a) near e = 1)",
    "perihelion speed * aphelion speed = squared circular speed 29.7847^2/a": "proved exactly [ideal, C11_visviva]; binary64 searched (1e-12 rel)",
    "orbit length between 2 pi b and 2 pi a (both formulas, all e in [0,1))": "proved [ideal, C11_length]; binary64 searched",
    "orbit length continuous across the switch at e = 0.95 (jump < a/1000)": "proved [ideal, C11_length_switch: |L(e) - L(0.95)| <= a/1000 for e in [0.94999, 0.95)]; binary64 searched at 0.95 -/+ 1 ulp.  The text says 'continuous' without a number; the two formulas of the library differ by 6.36e-4*a at e = 0.95 (L1 = 4.411321a, L2 = 4.410686a), so literal continuity is false by that amount by construction; a/1000 is this measured jump of the library's formulas rounded up, i.e. the clause checked is 'the jump is the known 6.4e-4 a and not larger'",
    "k = (1 + cos i)/2, k in [0,1], i in [0,180] for triangle-feasible distances": "proved [ideal, C11_phase]; binary64 searched",
    "node passage: radius r = a(1-e^2)/(1 + e cos v), v = -omega (ascending) / 180-omega (descending); time offset = (E - e sin E)/n":
        "proved [ideal, C11_nodes_elliptic: closed form of the generated function + conic identity]; binary64 searched",
    "node passage (parabolic): r = q(1+s^2) = 2q/(1+cos v), time offset 27.403895 s(s^2+3) q^1.5": "proved [ideal, C11_nodes_parabolic]; binary64 searched",
    "node passage -> Kepler's equation at that time -> true anomaly -omega / 180-omega": "unproved (searched): composition through Epoch arithmetic and the Kepler residual; searched over the whole quantifier (e up to 0.999999, omega 0..360 incl. v = 180 deg) with the tolerance 2*(dv/dM)*(5e-8 deg Kepler residual + rounding of the stored JDE) + 1e-9 deg, dv/dM = (1+e cos v)^2/(1-e^2)^1.5; nothing skipped for the elliptic case.  Parabolic (not in the property text): skipped only at v = 180 deg exactly (point at infinity) and where the passage instant falls outside the years an Epoch can hold (offset ~ tan^3(v/2))",
    "call sequences: kepler_equation / passage_nodes_* called with an Angle that was used before and then re-set (every input form of Angle.set: float, int, 2/3/4 arguments, tuple, list, 1-list, signed 4-tuple, another Angle, radians=, ra=; set_radians, set_ra, to_positive, in-place operators, set_tolerance) give bit-for-bit the result of a freshly constructed Angle of the same value":
        "searched (keys kepler-reused-angle, nodes-reused-angle: 32 forms x 5 targets deterministic + 400 random per quick run); model: Angles are immutable values, rad() is a pure function of the stored degrees, so a stale view cannot be expressed - a cache like that makes stage P/G fail (attribute the translator does not know) and this clause supplies the failing input",
    "binary64 rounding of all the above (accuracy near e -> 1, M -> 0)": "unproved (searched with the property's tolerances; correspondence is bit-exact with traced libm)",
}


def proof_files(tier):
    return ["C11_tac.v", "C11_loop.v", "C11_kepdefs.v", "C11_keppaths.v", "C11_kepler.v", "C11_twobody.v",
            "C11_nodes.v", "C11.v"]


D2R = math.pi / 180.0
NLIT = 0.9856076686


def fl(x):
    return repr(float(x))


# ----------------------------------------------------------------------------- generators
def gen_e(rng):
    r = rng.random()
    if r < 0.25:
        return rng.choice([0.0, 1e-12, 0.1, 0.5, 0.9, 0.95, 0.99, 0.999, 0.9999, 0.999999, 0.96727426, 0.0167])
    if r < 0.5:
        return 1.0 - 10 ** rng.uniform(-6, -1)
    return rng.uniform(0.0, 0.999999)


def gen_M(rng):
    r = rng.random()
    if r < 0.2:
        return 180.0 * rng.randint(-55, 55)
    if r < 0.45:
        k = rng.randint(-55, 55)
        d = rng.choice([1e-9, -1e-9, 1e-10, -1e-10, 5e-10, -5e-10, 1e-7, -1e-7, 1e-5, -1e-5])
        return 180.0 * k + d
    if r < 0.6:
        return rng.choice([1, -1]) * 10 ** rng.uniform(-9, 1)
    if r < 0.65:
        return rng.choice([1e4, -1e4, 9999.999999, -9999.999999, 360.0, -360.0, 0.0, 5.0, 2.0, 7.0])
    return rng.uniform(-1e4, 1e4)


def gen_a(rng):
    r = rng.random()
    if r < 0.2:
        return rng.choice([0.3, 1.0, 100.0, 17.9400782, 5.2, 0.387])
    return math.exp(rng.uniform(math.log(0.3), math.log(100.0)))


def gen_triple(rng):
    r = math.exp(rng.uniform(math.log(0.3), math.log(40.0)))
    R = rng.choice([1.0, rng.uniform(0.98, 1.02)])
    # planet-Sun-Earth triangle: choose the angle at the Sun
    th = rng.choice([rng.uniform(0.001, 179.999), 0.001, 179.999, 90.0, 1.0, 179.0])
    D = math.sqrt(r * r + R * R - 2 * r * R * math.cos(th * D2R))
    return r, D, R


def cdist(a, b):
    d = (a - b) % 360.0
    return min(d, 360.0 - d)


# ----------------------------------------------------------------------------- correspondence
def cases(rng, tier):
    n = 40 if tier == "quick" else 400
    cs = []
    for _ in range(n):
        e, M, a = gen_e(rng), gen_M(rng), gen_a(rng)
        om = rng.choice([rng.uniform(0, 360), 0.0, 90.0, 180.0, 270.0, 111.84644])
        cs.append("kepler_equation(%s, Angle(%s))" % (fl(e), fl(M)))
        cs.append("velocity(%s, %s)" % (fl(a * (1 - e)), fl(a)))
        cs.append("velocity_perihelion(%s, %s)" % (fl(e), fl(a)))
        cs.append("velocity_aphelion(%s, %s)" % (fl(e), fl(a)))
        cs.append("length_orbit(%s, %s)" % (fl(e), fl(a)))
        t = "Epoch(%d, %d, %s)" % (rng.randint(1600, 2400), rng.randint(1, 12), fl(rng.uniform(1, 28)))
        asc = rng.choice(["True", "False"])
        cs.append("passage_nodes_elliptic(Angle(%s), %s, %s, %s, ascending=%s)" % (fl(om), fl(e), fl(a), t, asc))
        cs.append("passage_nodes_parabolic(Angle(%s), %s, %s, ascending=%s)" % (fl(om), fl(a), t, asc))
        r, D, R = gen_triple(rng)
        cs.append("phase_angle(%s, %s, %s)" % (fl(r), fl(D), fl(R)))
        cs.append("illuminated_fraction(%s, %s, %s)" % (fl(r), fl(D), fl(R)))
    cs += ["kepler_equation(0.1, Angle(5.0))", "kepler_equation(0.99, Angle(2.0))", "kepler_equation(0.999, Angle(7.0))",
           "kepler_equation(0.99, Angle(0.2, radians=True))", "kepler_equation(0, Angle(180.0))",
           "kepler_equation(0.5, Angle(-180.0))", "kepler_equation(0.5, Angle(0.0))", "kepler_equation(0.999999, Angle(1e-9))",
           "kepler_equation(1, Angle(10.0))", "kepler_equation(0.5, 10.0)", "kepler_equation('a', Angle(1.0))",
           "kepler_equation(1.5, Angle(10.0))", "kepler_equation(-0.5, Angle(100.0))", "kepler_equation(1.0, Angle(10.0))",
           "kepler_equation(%s, Angle(10.0))" % fl(math.nextafter(1.0, 0.0)), "kepler_equation(%s, Angle(10.0))" % fl(math.nextafter(1.0, 2.0)),
           "kepler_equation(-0.0, Angle(10.0))", "kepler_equation(-5e-324, Angle(10.0))", "kepler_equation(2, Angle(10.0))", "kepler_equation(-1, Angle(10.0))",
           "velocity(1.0, 17.9400782)", "velocity(1, 2.0)", "velocity(3.0, 1.0)", "velocity(0.0, 1.0)",
           "velocity_perihelion(0.96727426, 17.9400782)", "velocity_aphelion(0.96727426, 17.9400782)",
           "velocity_perihelion(1.0, 1.0)", "velocity_aphelion(0.5, 0.0)", "velocity_perihelion(0.5, -1.0)",
           "velocity_perihelion(1, 1.0)", "velocity_aphelion(0.5, 1)",
           "length_orbit(0.96727426, 17.9400782)", "length_orbit(0.95, 1.0)", "length_orbit(%s, 1.0)" % fl(math.nextafter(0.95, 0)),
           "length_orbit(0.0, 1.0)", "length_orbit(1.0, 1.0)", "length_orbit(1.5, 1.0)", "length_orbit(0, 1.0)",
           "passage_nodes_elliptic(Angle(111.84644), 0.96727426, 17.9400782, Epoch(1986, 2, 9.45891))",
           "passage_nodes_elliptic(Angle(111.84644), 0.96727426, 17.9400782, Epoch(1986, 2, 9.45891), ascending=False)",
           "passage_nodes_elliptic(111.84644, 0.96727426, 17.9400782, Epoch(1986, 2, 9.45891))",
           "passage_nodes_elliptic(Angle(111.84644), 0.96727426, 17.9400782, 2446470.0)",
           "passage_nodes_parabolic(Angle(154.9103), 1.324502, Epoch(1989, 8, 20.291))",
           "passage_nodes_parabolic(Angle(154.9103), 1.324502, Epoch(1989, 8, 20.291), ascending=False)",
           "passage_nodes_parabolic(Angle(154.9103), 1, Epoch(1989, 8, 20.291))",
           "phase_angle(0.724604, 0.910947, 0.983824)", "illuminated_fraction(0.724604, 0.910947, 0.983824)",
           "phase_angle(1.0, 1.0, 3.0)", "phase_angle(0.0, 1.0, 1.0)", "illuminated_fraction(0.0, 1.0, 1.0)",
           "phase_angle(1, 1.0, 1.0)", "illuminated_fraction(1.0, 1.0, 1)"]
    return cs


# ----------------------------------------------------------------------------- oracle
PY = "PYTHONPATH=/repo /venv/bin/python -c "


def search(rng, tier, deep):
    C = load(["Coordinates", "Angle", "Epoch"])
    Co, Angle, Epoch = C["Coordinates"], C["Angle"].Angle, C["Epoch"].Epoch
    findings, seen, nkey = [], set(), {}
    stats = {"evaluations": 0, "distinct_nontrivial": 0}

    def report(key, what, inp, replay):
        nkey[key] = nkey.get(key, 0) + 1
        if nkey[key] > 8:                   # at most 8 findings per key, so that every failing clause is named
            return
        seen.add(key)
        findings.append({"key": key, "what": what, "input": inp,
                         "replay": PY + "\"from pymeeus.Coordinates import *; from pymeeus.Angle import Angle; "
                                        "from pymeeus.Epoch import Epoch; %s\"" % replay})

    full = deep or tier == "thorough"
    nk = 200000 if full else 20000

    # ---- Kepler
    for _ in range(nk):
        e, M = gen_e(rng), gen_M(rng)
        stats["evaluations"] += 1
        rep = "E, v = kepler_equation(%s, Angle(%s)); print(E(), v())" % (fl(e), fl(M))
        try:
            E, v = Co.kepler_equation(e, Angle(M))
            Ed, vd = float(E), float(v)
        except Exception as ex:
            report("kepler-raises", "kepler_equation(%r, Angle(%r)) raises %s" % (e, M, type(ex).__name__), [e, M], rep)
            continue
        stats["distinct_nontrivial"] += 1
        res = cdist(Ed - e * math.degrees(math.sin(Ed * D2R)), M)
        if not res <= 5e-8:
            report("kepler-residual", "kepler_equation(%r, Angle(%r)): E=%r, E - e sin E - M = %.3e deg (mod 360) > 5e-8"
                   % (e, M, Ed, res), [e, M], rep)
        # same half revolution, literally, also for M within 1e-9 of k*180 (the quantifier names them): exact
        # rational reduction of the value the function sees (the Angle's stored degrees; the constructor's
        # reduction is exact) and of E; lower half = [0,180], upper half = [180,360] (0 = 360); only for M
        # EXACTLY on a boundary (0 or 180 mod 360) do both halves count, i.e. E may sit on either side of it
        Mr = Fr(float(Angle(M))) % 360
        Ep = Fr(Ed) % 360
        lowM, upM = (0 <= Mr <= 180), (Mr >= 180 or Mr == 0)
        lowE, upE = (0 <= Ep <= 180), (Ep >= 180 or Ep == 0)
        if not (-180.0 <= Ed <= 180.0) or not ((lowM and lowE) or (upM and upE)):
            report("kepler-half", "kepler_equation(%r, Angle(%r)): E=%r is not in the half revolution of M (M mod 360 = %r)"
                   % (e, M, Ed, float(Mr)), [e, M], rep)
        vex = 2.0 * math.degrees(math.atan2(math.sqrt(1 + e) * math.sin(Ed * D2R / 2), math.sqrt(1 - e) * math.cos(Ed * D2R / 2)))
        if not cdist(vd, vex) <= 1e-9:
            report("kepler-true-anomaly", "kepler_equation(%r, Angle(%r)): v=%r but tan(v/2)=sqrt((1+e)/(1-e))tan(E/2) gives %r"
                   % (e, M, vd, vex), [e, M], rep)
        if min(cdist(Ed, 0.0), cdist(Ed, 180.0)) > 1e-6 and ((Ed % 360.0) < 180.0) != ((vd % 360.0) < 180.0):
            report("kepler-true-anomaly", "kepler_equation(%r, Angle(%r)): v=%r not in the half revolution of E=%r"
                   % (e, M, vd, Ed), [e, M], rep)

    # ---- eccentricities outside [0, 1) are refused with ValueError
    bad_e = [1.0, math.nextafter(1.0, 2.0), 1.5, 2.0, 1e300, float("inf"), -math.nextafter(0.0, 1.0), -1e-300, -0.5, -1.0,
             float("-inf"), 1, 2, -1]
    for e in bad_e:
        for M in (0.0, 5.0, 180.0, -77.5, gen_M(rng)):
            stats["evaluations"] += 1
            rep = "print(kepler_equation(%r, Angle(%s)))" % (e, fl(M)) if not isinstance(e, float) or math.isfinite(e) else \
                  "print(kepler_equation(float(%r), Angle(%s)))" % (repr(e), fl(M))
            try:
                Co.kepler_equation(e, Angle(M))
                report("kepler-bad-ecc-accepted", "kepler_equation(%r, Angle(%r)) is accepted, eccentricity outside [0,1)" % (e, M), [repr(e), M], rep)
            except ValueError:
                pass
            except Exception as ex:
                report("kepler-bad-ecc-exception", "kepler_equation(%r, Angle(%r)) raises %s, not ValueError" % (e, M, type(ex).__name__),
                       [repr(e), M], rep)
    # the boundary itself: the largest float below 1 and 0.0 (also -0.0) are accepted
    for e in (math.nextafter(1.0, 0.0), 0.0, -0.0, 0):
        stats["evaluations"] += 1
        try:
            Co.kepler_equation(e, Angle(10.0))
        except Exception as ex:
            report("kepler-raises", "kepler_equation(%r, Angle(10.0)) raises %s" % (e, type(ex).__name__), [repr(e), 10.0],
                   "print(kepler_equation(%r, Angle(10.0)))" % (e,))

    # ---- call sequences: an Angle argument that was USED BEFORE and then re-set must behave like a fresh one
    # (kepler_equation / the node-passage functions read the Angle through .rad(); a stale cached view of the
    # old value would make them solve for the previous angle).  Bit-for-bit against a freshly built Angle.
    def outcome(fn, ang):
        try:
            res = fn(ang)
        except Exception as ex:
            return ("raises", type(ex).__name__)
        out = []
        for x in res:
            if isinstance(x, Angle): out.append(float(x).hex())
            elif isinstance(x, Epoch): out.append(x.jde().hex())
            else: out.append(float(x).hex())
        return tuple(out)

    def reset_forms(rg):
        """(python statement on the variable a, ...) covering every input form of Angle.set and the other mutators"""
        d, m = rg.randint(0, 359), rg.randint(0, 59)
        sec = rg.choice([0.0, 30.0, round(rg.uniform(0, 59.99), 3)])
        x = rg.choice([250.5, -77.25, 0.0, 359.75, round(rg.uniform(-359, 359), 6), 725.5, -1000.125])
        h = round(rg.uniform(0, 23.9), 4)
        return ["a.set(%r)" % x, "a.set(%d)" % d, "a.set(%d, %d)" % (d, m), "a.set(%d, %d, %r)" % (d, m, sec),
                "a.set(%d, %d, %r, -1.0)" % (d, m, sec), "a.set((%d, %d, %r))" % (d, m, sec), "a.set([%d, %d, %r])" % (d, m, sec),
                "a.set((%d, %d))" % (d, m), "a.set([%d, %d])" % (d, m), "a.set((%r,))" % x, "a.set([%r])" % x,
                "a.set((%d, %d, %r, -1))" % (d, m, sec), "a.set([%d, %d, %r, 1.0])" % (d, m, sec), "a.set(-%d, %d, %r)" % (d, m, sec),
                "a.set(Angle(%r))" % x, "a.set(%r, radians=True)" % round(x / 60.0, 6), "a.set((%r,), radians=True)" % round(x / 60.0, 6),
                "a.set(%r, ra=True)" % h, "a.set((%d, %d, %r), ra=True)" % (d % 24, m, sec), "a.set()",
                "a.set_radians(%r)" % round(x / 60.0, 6), "a.set_ra(%r)" % h, "a.set_ra(%d, %d, %r)" % (d % 24, m, sec),
                "a.set(-%r); a.to_positive()" % abs(x if x else 12.5), "a.to_positive()",
                "a += %r" % x, "a -= Angle(%r)" % x, "a *= 2.5", "a /= 3.0", "a %%= %r" % (abs(x) + 1.0), "a **= 2",
                "a.set_tolerance(1e-6); a.set((%d, %d, %r))" % (d, m, sec)]

    def reuse_case(prev, stmt, target, det):
        """target: (key, python expression in a, callable)"""
        key, texpr, fn = target
        stats["evaluations"] += 1
        a = Angle(prev)
        outcome(fn, a)                      # the Angle is used once with its old value
        env = {"a": a, "Angle": Angle}
        try:
            exec(stmt, env)
        except Exception as ex:
            return                          # this form is not applicable (e.g. ** of a negative angle): nothing to compare
        a = env["a"]
        got = outcome(fn, a)
        fresh = Angle(float(a))
        if float(fresh).hex() != float(a).hex():
            return
        want = outcome(fn, fresh)
        stats["distinct_nontrivial"] += 1
        if got != want:
            report(key, "a = Angle(%r); %s; %s; %s gives %r, with a fresh Angle(%r) of the same value %r"
                   % (prev, texpr, stmt, texpr, got, float(a), want), [prev, stmt, texpr],
                   "a = Angle(%r); r0 = %s; %s; r1 = %s; r2 = %s; show = lambda r: [float(x) if not isinstance(x, Epoch) else x.jde() for x in r]; print(float(a), show(r1), show(r2))"
                   % (prev, texpr, stmt, texpr, texpr.replace("(a", "(Angle(float(a))", 1).replace(", a)", ", Angle(float(a)))")))

    t_reuse = Epoch(1986, 2, 9.45891)
    targets = [("kepler-reused-angle", "kepler_equation(0.3, a)", lambda a: Co.kepler_equation(0.3, a)),
               ("kepler-reused-angle", "kepler_equation(0.96727426, a)", lambda a: Co.kepler_equation(0.96727426, a)),
               ("nodes-reused-angle", "passage_nodes_elliptic(a, 0.96727426, 17.9400782, Epoch(1986, 2, 9.45891))",
                lambda a: Co.passage_nodes_elliptic(a, 0.96727426, 17.9400782, t_reuse)),
               ("nodes-reused-angle", "passage_nodes_elliptic(a, 0.2, 2.5, Epoch(1986, 2, 9.45891), ascending=False)",
                lambda a: Co.passage_nodes_elliptic(a, 0.2, 2.5, t_reuse, ascending=False)),
               ("nodes-reused-angle", "passage_nodes_parabolic(a, 1.324502, Epoch(1986, 2, 9.45891))",
                lambda a: Co.passage_nodes_parabolic(a, 1.324502, t_reuse))]
    import random as _random
    det_rng = _random.Random(11)            # deterministic cases first: every form x every target, previous value 10.0
    for stmt in reset_forms(det_rng):
        for tg in targets:
            reuse_case(10.0, stmt, tg, True)
    for _ in range(3000 if full else 400):   # then random previous values / forms / targets
        reuse_case(round(rng.uniform(-359, 359), 4), rng.choice(reset_forms(rng)), rng.choice(targets), False)

    # ---- speeds, length
    for _ in range(nk // 4):
        e, a = gen_e(rng), gen_a(rng)
        stats["evaluations"] += 1
        rep = ("e, a = %s, %s; print(velocity(a*(1-e), a), velocity_perihelion(e, a), velocity(a*(1+e), a), "
               "velocity_aphelion(e, a), length_orbit(e, a))" % (fl(e), fl(a)))
        try:
            vp, va = Co.velocity_perihelion(e, a), Co.velocity_aphelion(e, a)
            v1, v2 = Co.velocity(a * (1 - e), a), Co.velocity(a * (1 + e), a)
            L = Co.length_orbit(e, a)
        except Exception as ex:
            report("speed-raises", "speed/length functions raise %s for e=%r a=%r" % (type(ex).__name__, e, a), [e, a], rep)
            continue
        stats["distinct_nontrivial"] += 1
        if not abs(v1 - vp) <= 4e-6 * vp:
            report("visviva-perihelion", "velocity(a(1-e), a)=%r vs velocity_perihelion=%r (e=%r, a=%r): rel %.2e > 4e-6"
                   % (v1, vp, e, a, abs(v1 - vp) / vp), [e, a], rep)
        if not abs(v2 - va) <= 4e-6 * va + 1e-9 * vp:
            report("visviva-aphelion", "velocity(a(1+e), a)=%r vs velocity_aphelion=%r (e=%r, a=%r): rel %.2e > 4e-6"
                   % (v2, va, e, a, abs(v2 - va) / va), [e, a], rep)
        circ2 = 29.7847 ** 2 / a
        if not abs(vp * va - circ2) <= 1e-12 * circ2:
            report("speed-product", "velocity_perihelion*velocity_aphelion=%r, squared circular speed 29.7847^2/a=%r (e=%r, a=%r)"
                   % (vp * va, circ2, e, a), [e, a], rep)
        if not (0 < va <= vp):
            report("speed-order", "aphelion speed %r, perihelion speed %r (e=%r, a=%r)" % (va, vp, e, a), [e, a], rep)
        b = a * math.sqrt(1 - e * e)
        if not (2 * math.pi * b * (1 - 1e-12) <= L <= 2 * math.pi * a * (1 + 1e-12)):
            report("length-bounds", "length_orbit(%r, %r)=%r not in [2 pi b, 2 pi a] = [%r, %r]"
                   % (e, a, L, 2 * math.pi * b, 2 * math.pi * a), [e, a], rep)
    for _ in range(50):
        a = gen_a(rng)
        stats["evaluations"] += 1
        lo = math.nextafter(0.95, 0.0)
        try:
            L1, L2 = Co.length_orbit(lo, a), Co.length_orbit(0.95, a)
        except Exception as ex:
            report("speed-raises", "length_orbit raises %s at the switch, a=%r" % (type(ex).__name__, a), [a],
                   "print(length_orbit(0.95, %s))" % fl(a))
            continue
        if not abs(L1 - L2) <= 1e-3 * a:
            report("length-switch", "length_orbit jumps by %r (> a/1000) across e=0.95 for a=%r: %r vs %r" % (abs(L1 - L2), a, L1, L2),
                   [a], "import math; a=%s; print(length_orbit(math.nextafter(0.95, 0), a), length_orbit(0.95, a))" % fl(a))
    # the switch sits at 0.95: the formulas disagree by far more than a/1000 elsewhere only if it moved
    for e in (0.9, 0.94, 0.96, 0.99):
        stats["evaluations"] += 1
        b = math.sqrt(1 - e * e)
        f1 = math.pi * (21.0 * (1 + b) / 2 - 2 * math.sqrt(b) - 3 * (2 * b / (1 + b))) / 8.0
        f2 = math.pi * (3 * (1 + b) - math.sqrt((1 + 3 * b) * (3 + b)))
        want = f1 if e < 0.95 else f2
        try:
            got = Co.length_orbit(e, 1.0)
        except Exception as ex:
            got = float("nan")
        if not abs(got - want) <= 1e-12 * want:
            report("length-formula", "length_orbit(%r, 1.0)=%r, the formula for this side of 0.95 gives %r" % (e, got, want), [e],
                   "print(length_orbit(%s, 1.0))" % fl(e))

    # ---- phase
    for _ in range(nk // 4):
        r, D, R = gen_triple(rng)
        stats["evaluations"] += 1
        rep = "print(phase_angle(%s, %s, %s)(), illuminated_fraction(%s, %s, %s))" % (fl(r), fl(D), fl(R), fl(r), fl(D), fl(R))
        try:
            i = float(Co.phase_angle(r, D, R))
            k = Co.illuminated_fraction(r, D, R)
        except Exception as ex:
            report("phase-raises", "phase_angle/illuminated_fraction(%r, %r, %r) raises %s" % (r, D, R, type(ex).__name__), [r, D, R], rep)
            continue
        stats["distinct_nontrivial"] += 1
        if not abs(k - (1 + math.cos(i * D2R)) / 2) <= 1e-12:
            report("phase-k", "illuminated_fraction(%r, %r, %r)=%r but (1+cos i)/2=%r (i=%r)"
                   % (r, D, R, k, (1 + math.cos(i * D2R)) / 2, i), [r, D, R], rep)
        if not (-1e-12 <= k <= 1 + 1e-12 and 0 <= i <= 180):
            report("phase-range", "illuminated_fraction(%r, %r, %r)=%r, phase angle %r out of range" % (r, D, R, k, i), [r, D, R], rep)

    # ---- node passages
    for _ in range(nk // 4):
        e = gen_e(rng)
        a = gen_a(rng)
        om = rng.choice([rng.uniform(0.01, 359.99), 90.0, 270.0, 111.84644, 1.0, 359.0, 179.0, 181.0, 180.0, 179.9999, 0.0001])
        asc = rng.random() < 0.5
        y, mo, d = rng.randint(1700, 2300), rng.randint(1, 12), rng.uniform(1, 28)
        stats["evaluations"] += 1
        vwant = (-om if asc else 180.0 - om)
        rep = ("t = Epoch(%d, %d, %s); tt, r = passage_nodes_elliptic(Angle(%s), %s, %s, t, ascending=%s); "
               "n = 0.9856076686/(%s**1.5); E, v = kepler_equation(%s, Angle(n*(tt - t))); print(tt - t, r, v())"
               % (y, mo, fl(d), fl(om), fl(e), fl(a), asc, fl(a), fl(e)))
        try:
            t = Epoch(y, mo, d)
            tt, r = Co.passage_nodes_elliptic(Angle(om), e, a, t, ascending=asc)
            n = NLIT / (a * math.sqrt(a))
            dt = tt - t
            E, v = Co.kepler_equation(e, Angle(n * dt))
            vd = float(v)
        except Exception as ex:
            report("nodes-raises", "passage_nodes_elliptic/kepler raise %s (omega=%r e=%r a=%r asc=%r)" % (type(ex).__name__, om, e, a, asc),
                   [om, e, a, asc], rep)
            continue
        stats["distinct_nontrivial"] += 1
        cv = math.cos(vwant * D2R)
        rw = a * (1 - e * e) / (1 + e * cv)
        if not abs(r - rw) <= 1e-9 * rw:
            report("nodes-radius", "passage_nodes_elliptic(omega=%r, e=%r, a=%r, ascending=%r): r=%r, conic gives %r" % (om, e, a, asc, r, rw),
                   [om, e, a, asc], rep)
        amp = (1 + e * cv) ** 2 / (1 - e * e) ** 1.5
        tolM = 5e-8 + 4 * n * math.ulp(t.jde() + abs(dt)) + 1e-12 * abs(n * dt)
        tol = 2 * amp * tolM + 1e-9
        if not cdist(vd, vwant) <= tol:
            report("nodes-kepler", "node passage (omega=%r, e=%r, a=%r, ascending=%r) -> kepler gives v=%r, expected %r (tol %.1e)"
                   % (om, e, a, asc, vd, vwant % 360.0, tol), [om, e, a, asc], rep)
        # parabolic
        q = a
        rep2 = ("t = Epoch(%d, %d, %s); tt, r = passage_nodes_parabolic(Angle(%s), %s, t, ascending=%s); print(tt - t, r)"
                % (y, mo, fl(d), fl(om), fl(q), asc))
        s0 = math.tan(vwant * D2R / 2)
        if math.cos(vwant * D2R / 2) == 0.0:
            continue        # v = 180 deg exactly: the parabola's point at infinity, r and the time are undefined
        if not (0.0 <= t.jde() + 27.403895 * (s0 ** 3 + 3 * s0) * q * math.sqrt(q) <= 5.4e6):
            # the passage instant lies outside the years -4712..10000 an Epoch can hold (near v = 180 deg the offset
            # grows like tan^3(v/2): 1e18 days at omega = 179.9999); Epoch(jde) itself fails there
            # (UnboundLocalError in get_date for JDE ~1e19) - not a statement of this property, skipped
            stats["skipped_parabolic_out_of_epoch_range"] = stats.get("skipped_parabolic_out_of_epoch_range", 0) + 1
            continue
        try:
            tt, r = Co.passage_nodes_parabolic(Angle(om), q, t, ascending=asc)
            dt = tt - t
        except Exception as ex:
            report("nodes-raises", "passage_nodes_parabolic raises %s (omega=%r q=%r asc=%r)" % (type(ex).__name__, om, q, asc), [om, q, asc], rep2)
            continue
        s = math.tan(vwant * D2R / 2)
        ch = math.cos(vwant * D2R / 2)
        rw = q / (ch * ch)  # = 2q/(1 + cos v), in the form that is well conditioned near v = 180
        if not abs(r - rw) <= 1e-9 * rw:
            report("nodes-parabolic-radius", "passage_nodes_parabolic(omega=%r, q=%r, ascending=%r): r=%r, parabola gives %r" % (om, q, asc, r, rw),
                   [om, q, asc], rep2)
        dtw = 27.403895 * (s ** 3 + 3 * s) * q * math.sqrt(q)
        if not abs(dt - dtw) <= 1e-9 * abs(dtw) + 8 * math.ulp(t.jde() + abs(dtw)):
            report("nodes-parabolic-time", "passage_nodes_parabolic(omega=%r, q=%r, ascending=%r): time offset %r d, Barker's equation gives %r"
                   % (om, q, asc, dt, dtw), [om, q, asc], rep2)

    stats["rule"] = ("kepler: e in [0,0.999999] (uniform, 1-10^-k, special), M in [-1e4,1e4] deg incl. 180k and 180k +- 1e-10..1e-5; "
                     "residual mod 360 <= 5e-8 deg, half revolution, true anomaly (atan2 form) 1e-9 deg; speeds/length a in 0.3..100 AU; "
                     "triangle-feasible (r, Delta, R) from the angle at the Sun; node passage -> Kepler -> v = -omega / 180-omega (all e of the quantifier, tolerance scaled by dv/dM)")
    stats["samples"] = [{"input": [0.99, 2.0], "checked": "E=32.361007: E - e sin E - M, half turn, v=152.542134"},
                        {"input": [0.96727426, 17.9400782], "checked": "vis-viva at q and Q, product, length 77.06 in [2 pi b, 2 pi a]"}]
    return findings, stats
