"""C15 — Moon position is physical; lunar event finders agree with it."""
import math
from vlib import common as K
from vlib.impl import load

ID = "C15"
MODULES = K.mods("base", "Angle", "Epoch", "Interpolation", "Coordinates", "Earth", "Sun", "Moon")
REQUIRED = ["Moon.geocentric_ecliptical_pos", "Moon.apparent_ecliptical_pos", "Moon.apparent_equatorial_pos",
            "Moon.longitude_mean_ascending_node", "Moon.longitude_true_ascending_node",
            "Moon.longitude_mean_perigee", "Moon.illuminated_fraction_disk",
            "Moon.moon_phase", "Moon.moon_perigee_apogee", "Moon.moon_passage_nodes",
            "Moon.moon_maximum_declination", "Epoch.get_doy", "Epoch.is_leap", "Epoch.get_date"]
# finder closed forms (one proof file per finder/target, written by coq/proofs/C15/mkmoon.py and checked in)
FINDER_TARGETS_QUICK = ["moon_passage_nodes_ascending", "moon_passage_nodes_descending", "moon_perigee_apogee_apogee"]
# 5-7 min and 6-8 GB each: compiled in the thorough tier only (statements T15_* in C15_heavy.v, not in THEOREMS)
FINDER_TARGETS_THOROUGH = ["moon_perigee_apogee_perigee", "moon_maximum_declination_northern",
                           "moon_maximum_declination_southern"]
FINDER_NAMES = ["moon_perigee_apogee", "moon_passage_nodes", "moon_maximum_declination", "moon_phase"]
THEOREMS = (["C15_angle_reduction", "C15_jde2000", "C15_mean_node", "C15_mean_perigee", "C15_node_rate", "C15_perigee_rate",
             "C15_illuminated_fraction", "C15_finder_index", "C15_finder_spacing"]
            + ["C15_" + t for t in FINDER_TARGETS_QUICK] + ["C15_%s_refusals" % f for f in FINDER_NAMES]
            + ["C15_finder_timing"]
            + ["C15_moon_phase_%s" % t for t in ("new", "first", "full", "last")] + ["C15_phase_order", "C15_phase_spacing", "C15_new_moon_spacing", "C15_full_moon_spacing",
               "C15_first_quarter_spacing", "C15_last_quarter_spacing"]
            + ["C15_moon_position", "C15_moon_series_closed_form", "C15_moon_envelopes"])
PROOF_TIMEOUT = {"quick": 1500, "thorough": 3300}
EXHAUSTIVE = False
MANIFEST = {
    "category": "proof",
    "text": ("T4/T6 (partial proof) on the model regenerated from Moon.py, real-number instance: (1) argument reduction "
             "Angle(Angle.reduce_deg(x)).to_positive() = x mod 360 in [0,360) for EVERY real x; JDE2000 = 2451545; "
             "(2) mean node / mean perigee longitudes = explicit polynomials in T (linear coefficients -1934.1362891 / "
             "+4069.0137287 deg/century; what is proved about the 'rate' is that the non-linear part stays <= 8.2 / 40.6 deg "
             "on |T| <= 60); (3) illuminated fraction = (1+cos i)/2 with the explicit Meeus (48.4) angle i, hence in [0,1]; "
             "(4) closed forms of the event finders with every coefficient written out, callee values (Epoch.get_date / "
             "is_leap / get_doy, Epoch(x), Angle(0,0,p)) as satisfiable hypotheses: node passages (both) and apogee in the "
             "quick tier, perigee and both maximum declinations in the thorough tier only (T15_* in C15_heavy.v, not in "
             "THEOREMS), and in the thorough tier the Epoch(x) hypothesis of the node-passage and apogee closed forms is "
             "discharged with property C02's constructor theorem (T15_*_exact in C15_exact.v); moon_phase: closed form of all four targets (C15_p_moon_phase_*.v written by mkphase.py: decimal year with the 365/366 case, k = round((yr-2000)*12.3685, 0) + 0/0.25/0.5/0.75, mean phase, E, M, M', F, Omega, 14 planetary arguments, the 25-term periodic sum per target, W for the quarters, 14 additional terms; evaluated with a let-abstracting call-by-value driver C15_tac3.v, ~80 s per target), deviation C = 0.953 / 1.179 / 0.953 / 1.173 d, hence new < first < full < last < next new inside a lunation (5.2..9.6 d apart), same-phase spacing 29.53 d +- 2C, and consecutive new moons / full moons 29.2..29.9 d apart (term-by-term difference bound, C15_new_moon_spacing / C15_full_moon_spacing); TypeError / ValueError refusals "
             "of all four finders for the listed bad arguments; (5) C15_finder_timing: on the window -41 <= T <= 21 the "
             "result deviates from J0 + B k by at most C (interval arithmetic on the proved coefficients), 2C < B, hence "
             "results are strictly ordered and B +- 2C apart IN THE INDEX k (not in the query epoch); (6) spec lemmas "
             "(Spec/MoonFinder.v): index round((year-y0)*rate) monotone and onto; C15_finder_spacing is spec-only and not "
             "tied to the code (superseded by (5)); (7) Moon.geocentric_ecliptical_pos for T in [-40, 20]: the two 60-row table loops are "
             "instances of generic loop theorems (induction, any table length), giving the closed form of (lambda, beta, Delta, "
             "parallax = asin(6378.14/Delta), never a ValueError) with the code's polynomials and the amplitude-sum envelopes "
             "355245..414756 km, |beta| <= 6.10 deg read from the extracted tables (weaker than the property's 356000..407000 km / 5.35 deg).  "
             "NOT proved, searched on the implementation with the property's numbers: "
             "distance/latitude envelopes at the property's numbers, daily motion, agreement of the illuminated "
             "fraction with the geometry, agreement of the finders with the position theory, monotonicity in the query "
             "epoch, 1.6-month clause (refuted: known finding), totality on every calendar day.  Bit-exact correspondence "
             "of every anchored function."),
    "technique": "pyrun/pyrunv symbolic evaluation with abstracted callees + lra/interval in the ideal instance; spec lemmas by "
                 "lra/lia; generated model + bit-exact differential correspondence; Python property oracle with the property's tolerances",
    "design_ref": "8/C15",
}
EXPLANATION = ("Ideal-instance theorems on the regenerated Moon/Angle model: argument reduction to [0,360) for every real, "
               "JDE2000, explicit polynomials of the node/perigee longitudes (non-linear part bounded on |T|<=60), illuminated "
               "fraction (1+cos i)/2 with the explicit angle i; closed forms (every coefficient) of node passages and apogee "
               "(quick) and perigee / maximum declinations (thorough only), refusals of all four finders, deviation bound C and "
               "ordering/spacing in the index k on -41<=T<=21 (C15_finder_timing); moon_phase closed forms (4 targets) and phase order within a lunation; parallax relation, "
               "envelopes, daily motion, finder-vs-position agreement, behaviour in the query epoch and totality are evaluated by "
               "the search oracle on the implementation; every anchored function is compared bit for bit with its model.")
CLAUSES = {
    "parallax = asin(6378.14/Delta)": "proved [ideal, T in [-40, 20] centuries = years -2000..4000: C15_moon_position - the generated geocentric_ecliptical_pos returns (Angle lambda, Angle beta, Delta, Angle(asin(6378.14/Delta), radians)) with Delta = 385000.56 + sigma_r/1000 km; 6378.14/Delta is in (0, 0.018] (C15_moon_envelopes), so asin never raises. The two 60-row table loops are instances (unification with the generated text) of the generic loop theorems C15_pos_loop.lr_fix_spec / b_fix_spec (induction, tables of any length); sigma_l, sigma_r, sigma_b = sum_i coeff_i Efac_i sin/cos((d_i D + m_i M + m'_i M' + f_i F) deg) on the extracted tables with the code's polynomials, Efac = E, E^2, 1 for |m_i| = 1, 2, other (C15_moon_series_closed_form)]; binary64: searched to 1e-9 deg + bit-exact correspondence",
    "illuminated fraction in [0,1] and of the form (1+cos i)/2": "proved [ideal]: illuminated_fraction_disk = (1+cos i)/2 with the explicit angle i = 180 - D - 6.289 sin M' + 2.1 sin M - 1.274 sin(2D-M') - 0.658 sin 2D - 0.214 sin 2M' - 0.11 sin D (D, M, M' the code's polynomials; Angle reductions removed by congruence mod 360), hence in [0,1]; agreement with the Sun-Earth-Moon geometry (0.01): unproved (searched)",
    "node/perigee longitudes move at their secular rates": "proved [ideal] as: the longitudes are explicit polynomials in T with linear coefficients -1934.1362891 / +4069.0137287 deg/century and the non-linear part is <= 8.2 / 40.6 deg on -60 <= T <= 60 (interval); no statement about the instantaneous rate; true node: searched (within 1.97 deg of the mean node)",
    "reduction of large arguments": "proved [ideal, every real x]: Angle(Angle.reduce_deg(x)).to_positive() = x mod 360 in [0,360)",
    "distance 356000-407000 km, |latitude| <= 5.35 deg": "unproved (searched) at these numbers; proved [ideal, T in [-40, 20]] are the amplitude-sum envelopes read from the extracted tables: 355 245 km <= Delta <= 414 756 km, |beta| <= 6.10 deg, |lambda - L'| <= 9.25 deg (C15_moon_envelopes) - sums of absolute amplitudes (times the bound 1.09 / 1.19 of E / E^2 on the range) cannot see the phase relations between the terms that keep the true extremes at 356 400 / 406 700 km and 5.3 deg",
    "longitude advances 11.5-15.6 deg/day": "unproved (searched)",
    "finders: k from the rounded fractional year is non-decreasing and takes every value": "proved [spec, Spec/MoonFinder.v]; tied to the code through the finder closed forms, whose index is literally Rround_nd((year - y0) * rate) 0 + target offset",
    "results strictly increasing in k, consecutive results one mean month +-(2C+D) apart when 2C+D < B": "C15_finder_spacing: [spec] NOT tied to the code by proof (it needs |c k| <= C for every integer k, the generated corrections are bounded only on the window -41 <= T <= 21); the code-tied statement is C15_finder_timing (row 'deviation ...')",
    "moon_phase closed form (4 targets: decimal year y + doy/(365|366), k = round((yr-2000)*12.3685,0) + 0/0.25/0.5/0.75, mean phase polynomial, E, M/M'/F/Omega, 14 planetary arguments, periodic sum per target with every coefficient, W for the quarters (negated for 'last'), additional terms)": "proved [ideal; C15_moon_phase_new/first/full/last; Epoch.get_date/is_leap/get_doy values and Epoch(x) as hypotheses (Epoch_of E: Epoch(x) stores E x, E uninterpreted); refusals proved]",
    "phases in order inside a lunation (new < first < full < last < next new, 5.2..9.6 d apart) on the index window -41 <= k/1236.85 <= 21": "proved [ideal + lra from the deviation bounds C = 0.953 / 1.179 / 0.953 / 1.173 d, C15_phase_order; in the index n, not in the query epoch]",
    "successive same-phase instants 29.2..29.9 d apart": "proved [ideal] for new moons and for full moons (C15_new_moon_spacing / C15_full_moon_spacing: every index k with k, k+1 in the window -41 <= k/1236.85 <= 21; term-by-term difference bound 0.3136 d on the proved coefficients, C15_d_moon_phase_*.v written by mkdiff.py); quarters: 29.1..30.0 d by the same bound (C15_first_quarter_spacing / C15_last_quarter_spacing) - they really vary 29.18..29.93 d, outside the property's figure; searched (29.15..29.95) on every calendar day of the sample years; in the index k, not in the query epoch",
    "Epoch(x) hypothesis of the finder closed forms": "discharged in the thorough tier for the node passages and the apogee (T15_*_exact in C15_exact.v): property C02's Epoch_ctor_exact_ideal is imported, the instant handed to Epoch() lies in its range for a fractional year in -2000..4001; remaining hypotheses: the values of Epoch.get_date / is_leap / get_doy (and Angle(0,0,p)); perigee / declinations keep the hypothesis (their evaluation costs 5-7 min and 6-8 GB once already)",
    "finder closed forms: perigee, northern / southern maximum declination (T15_* in C15_heavy.v)": "proved in the thorough tier [ideal; same hypotheses; 5-7 min and 6-8 GB each, therefore not compiled in quick and not listed in THEOREMS]",
    "finder closed forms on the regenerated code (ascending/descending node passages, apogee; quick tier): index k = round((year - y0) rate, 0) + target offset from the fractional year, result Epoch(mean(k) + periodic terms) [+ Angle(parallax) / Angle(declination)], every coefficient": "proved [ideal; Epoch.get_date/is_leap/get_doy values, Epoch(x) and Angle(0,0,p) as hypotheses]",
    "deviation |result - (J0 + B k)| <= C on -41 <= T <= 21 with 2C < B (C = 1.28 / 1.96 / 4.20 / 2.16 d nodes / apogee / perigee / declination) => consecutive results strictly ordered, B +- 2C apart, never backwards": "proved [ideal + spec: interval arithmetic on the proved coefficients, C15_finder_timing; tied to the generated finders; ordering/spacing is in the index k, NOT in the query epoch: 'never backwards as the query advances' additionally needs the fractional year to be non-decreasing in the epoch (C16) and is searched]",
    "results within 1.6 months of the query": "refuted on the unchanged tree for late years (known finding query-distance-1.6-months: moon_phase(Epoch(2600,1,12),'last') is 1.604 months later; up to 1.93 at year 4000); calibrated gross bound 2.0 months searched (key query-distance-gross)",
    "finder instants agree with the position theory (0.06 deg / 0.25 d / 0.02 deg / 0.25 d, 0.15 deg)": "unproved (searched at every distinct event of the sample years)",
    "every target string; TypeError / ValueError": "proved [ideal] for every finder: TypeError for a None/bool/int/float/str epoch or a non-string target, ValueError for the listed wrong strings (empty, wrong case, other finders' targets); arbitrary strings searched",
    "totality on every calendar day, both calendars, leap days of Julian century years": "unproved (searched: every day of the sample years incl. 1582 and Julian century years; 29 Feb / 1 Mar / 31 Dec of 12 Julian century years)",
}

PROOF_FILES = ["C15_angle.v", "C15_tac.v", "C15_j2000.v", "C15_nodes.v", "C15_illum.v"]


def proof_files(tier):
    fs = (list(PROOF_FILES) + ["C15_tac2.v", "C15_fdefs.v"]
          + ["C15_f_%s.v" % t for t in FINDER_TARGETS_QUICK] + ["C15_e_%s.v" % f for f in FINDER_NAMES])
    if tier != "quick":
        fs += ["C15_f_%s.v" % t for t in FINDER_TARGETS_THOROUGH] + ["C15_heavy.v"]
        # the quick-tier closed forms again, with Epoch(x) = the Epoch holding x (property C02's Epoch_ctor_exact_ideal:
        # 5-6 min + 16 shards per build directory) instead of a hypothesis: T15_*_exact in C15_exact.v, not in THEOREMS
        fs += (["../C02/C02_ctor_spec.v"] + ["../C02/C02_ctor_rt_%02d.v" % k for k in range(16)] + ["../C02/C02_ctor_ideal.v"]
               + ["C15_x_%s.v" % t for t in FINDER_TARGETS_QUICK] + ["C15_exact.v"])
    # Moon.moon_phase, 4 targets: let-abstracting call-by-value driver (C15_tac3.v), ~80 s per target file
    fs += ["C15_tac3.v"] + ["C15_p_moon_phase_%s.v" % t for t in ("new", "first", "full", "last")] + ["C15_phase.v", "C15_diff.v", "C15_d_moon_phase_new.v", "C15_d_moon_phase_full.v",
           "C15_d_moon_phase_first.v", "C15_d_moon_phase_last.v", "C15_s3.v"]
    # Moon.geocentric_ecliptical_pos: generic loop theorems + instantiation + envelopes (about 45 s in all)
    fs += ["C15_pos_tac.v", "C15_pos_loop.v", "C15_pos_main.v", "C15_pos_bound.v", "C15_pos.v"]
    return fs + ["C15_s1.v", "C15_s2.v", "C15.v"]


# ----------------------------------------------------------------------------------------------
# constants of the property text
# ----------------------------------------------------------------------------------------------
JD_LO, JD_HI = 990557.5, 3182395.5       # 1 Jan -2000 (Julian) .. 1 Jan 4001 (Gregorian)
SYN, ANO, DRA, TRO = 29.530588861, 27.55454989, 27.212220817, 27.321582247
# finder, target, mean period, natural variation of the spacing of consecutive results (days)
FINDERS = [
    ("moon_phase", "new", SYN, (29.15, 29.95)), ("moon_phase", "first", SYN, (29.15, 29.95)),
    ("moon_phase", "full", SYN, (29.15, 29.95)), ("moon_phase", "last", SYN, (29.15, 29.95)),
    ("moon_perigee_apogee", "perigee", ANO, (24.5, 28.7)), ("moon_perigee_apogee", "apogee", ANO, (26.9, 28.0)),
    ("moon_passage_nodes", "ascending", DRA, (26.9, 27.6)), ("moon_passage_nodes", "descending", DRA, (26.9, 27.6)),
    ("moon_maximum_declination", "northern", TRO, (27.1, 27.6)), ("moon_maximum_declination", "southern", TRO, (27.1, 27.6)),
]
PHASE_ANGLE = {"new": 0.0, "first": 90.0, "full": 180.0, "last": 270.0}
FIXED_YEARS = [-2000, -1000, 0, 100, 500, 900, 1300, 1500, 1582, 1600, 1900, 2000, 2024, 3000, 4000]
JULIAN_CENTURIES = [100, 200, 300, 500, 600, 700, 900, 1000, 1100, 1300, 1400, 1500]


def _f(x):
    return float(x)


def _wrap(x):
    return (x + 180.0) % 360.0 - 180.0


def cases(rng, tier):
    n = 60 if tier == "quick" else 400
    cs = []
    def ep():
        r = rng.random()
        if r < 0.5:
            return "Epoch(%r)" % round(rng.uniform(JD_LO, JD_HI), 3)
        y = rng.choice(FIXED_YEARS + JULIAN_CENTURIES) if r < 0.8 else rng.randint(-2000, 4000)
        m = rng.randint(1, 12)
        d = rng.choice([1, 15, 28]) + rng.choice([0.0, 0.5, 0.25])
        if r < 0.6 and y in JULIAN_CENTURIES:
            m, d = rng.choice([(2, 29.0), (3, 1.0), (12, 31.0)])
        return "Epoch(%d, %d, %r)" % (y, m, d)
    for _ in range(n // 4):
        e = ep()
        k = rng.random()
        if k < 0.5: cs.append("Moon.geocentric_ecliptical_pos(%s)" % e)
        elif k < 0.7: cs.append("Moon.apparent_ecliptical_pos(%s)" % e)
        else: cs.append("Moon.apparent_equatorial_pos(%s)" % e)
    for _ in range(n // 4):
        e = ep()
        cs.append(rng.choice(["Moon.longitude_mean_ascending_node(%s)", "Moon.longitude_true_ascending_node(%s)",
                              "Moon.longitude_mean_perigee(%s)", "Moon.illuminated_fraction_disk(%s)"]) % e)
    for _ in range(n):
        fn, tg, _, _ = rng.choice(FINDERS)
        e = ep()
        if fn == "moon_phase":
            cs.append("Moon.%s(%s, target=%r).jde()" % (fn, e, tg))
        elif fn == "moon_passage_nodes":
            cs.append("Moon.%s(%s, %r).jde()" % (fn, e, tg))
        else:
            cs.append("Moon.%s(%s, target=%r)" % (fn, e, tg))
    cs += ["Moon.moon_phase(Epoch(1977, 2, 15.0)).jde()", "Moon.moon_phase(Epoch(2044, 1, 1.0), 'last').jde()",
           "Moon.moon_phase(Epoch(2000, 1, 1.0), 'half')", "Moon.moon_phase(Epoch(2000, 1, 1.0), 3)",
           "Moon.moon_phase(2451545.0, 'new')", "Moon.moon_perigee_apogee(Epoch(1988, 10, 1.0), 'apogee')",
           "Moon.moon_perigee_apogee(Epoch(1988, 10, 1.0), 'Perigee')", "Moon.moon_passage_nodes(Epoch(1987, 5, 15.0)).jde()",
           "Moon.moon_passage_nodes(Epoch(1987, 5, 15.0), 'up')", "Moon.moon_maximum_declination(Epoch(1988, 12, 15.0))",
           "Moon.moon_maximum_declination(Epoch(-4, 3, 15.0), 'northern')", "Moon.moon_maximum_declination(Epoch(2049, 4, 15.0), 'south')",
           "Moon.moon_maximum_declination(Epoch(2049, 4, 15.0), None)", "Moon.geocentric_ecliptical_pos(2451545.0)",
           "Moon.moon_phase(Epoch(1500, 2, 29.0), 'full').jde()", "Moon.moon_perigee_apogee(Epoch(100, 2, 29.5))",
           "Moon.moon_passage_nodes(Epoch(900, 3, 1.0), 'descending').jde()", "Moon.moon_maximum_declination(Epoch(1300, 12, 31.0), 'southern')",
           "Moon.illuminated_fraction_disk(Epoch(1992, 4, 12.0))", "Moon.longitude_mean_perigee(Epoch(2021, 3, 5.0))",
           "Moon.longitude_true_ascending_node(Epoch(1913, 5, 27.0))"]
    return cs


# ----------------------------------------------------------------------------------------------
# search oracle
# ----------------------------------------------------------------------------------------------
class Oracle:
    def __init__(self, mods):
        self.Moon = mods["Moon"].Moon
        self.Sun = mods["Sun"].Sun
        self.Epoch = mods["Epoch"].Epoch
        self.findings = []
        self.n = 0
        self.nontriv = 0
        self.keys = {}

    def add(self, key, what, inp, replay):
        self.keys[key] = self.keys.get(key, 0) + 1
        if self.keys[key] <= 3:
            self.findings.append({"key": key, "what": what, "input": inp,
                                  "replay": "PYTHONPATH=/repo /venv/bin/python -c \"from pymeeus.Moon import Moon; from pymeeus.Sun import Sun; "
                                            "from pymeeus.Epoch import Epoch; %s\"" % replay})

    # ---- position clauses at one instant
    def position(self, jde):
        Moon, Sun, Epoch = self.Moon, self.Sun, self.Epoch
        self.n += 1
        rp = "e=Epoch(%r); print(Moon.geocentric_ecliptical_pos(e), Moon.illuminated_fraction_disk(e))" % jde
        try:
            e = Epoch(jde)
            lon, lat, dist, par = Moon.geocentric_ecliptical_pos(e)
            lon1 = Moon.geocentric_ecliptical_pos(Epoch(jde + 1.0))[0]
            k = Moon.illuminated_fraction_disk(e)
            la, ba, da, pa = Moon.apparent_ecliptical_pos(e)
            ra, dec, dq, pq = Moon.apparent_equatorial_pos(e)
            ls, bs, rs = Sun.apparent_geocentric_position(e)
        except Exception as ex:
            self.add("position-raises", "Moon position at JDE %r raises %r" % (jde, ex), jde, rp)
            return
        self.nontriv += 1
        lon, lat, lon1 = _f(lon), _f(lat), _f(lon1)
        if not (356000.0 <= dist <= 407000.0):
            self.add("distance-range", "distance %.1f km at JDE %r outside 356000..407000" % (dist, jde), jde, rp)
        if not abs(lat) <= 5.35:
            self.add("latitude-range", "|latitude| %.4f deg at JDE %r exceeds 5.35" % (abs(lat), jde), jde, rp)
        try:
            want = math.degrees(math.asin(6378.14 / dist))
        except Exception:
            want = float("nan")
        if not abs(_f(par) - want) <= 1e-9:
            self.add("parallax-asin", "parallax %.9f deg but asin(6378.14/%.3f) = %.9f deg at JDE %r" % (_f(par), dist, want, jde), jde, rp)
        adv = (lon1 - lon) % 360.0
        if not (11.5 <= adv <= 15.6):
            self.add("daily-motion", "longitude advances %.4f deg in the day after JDE %r (11.5..15.6)" % (adv, jde), jde, rp)
        # apparent positions: same distance/parallax/latitude, longitude differs by the nutation only (< 0.01 deg)
        if da != dist or _f(pa) != _f(par) or _f(ba) != lat or dq != dist or _f(pq) != _f(par):
            self.add("apparent-consistency", "apparent positions change distance/latitude/parallax at JDE %r" % jde, jde, rp)
        if not abs(_wrap(_f(la) - lon)) <= 0.01:
            self.add("apparent-consistency", "apparent - mean longitude = %.5f deg at JDE %r (nutation is < 0.01)" % (_wrap(_f(la) - lon), jde), jde, rp)
        # equatorial from ecliptical, independently (true obliquity recovered from the library)
        # illuminated fraction
        if not (0.0 <= k <= 1.0):
            self.add("illuminated-range", "illuminated fraction %r at JDE %r outside [0,1]" % (k, jde), jde, rp)
        R = rs * 149597870.7
        cpsi = math.cos(math.radians(_f(ba))) * math.cos(math.radians(_f(la) - _f(ls)))
        cpsi = max(-1.0, min(1.0, cpsi))
        psi = math.acos(cpsi)
        i = math.atan2(R * math.sin(psi), da - R * cpsi)
        k2 = (1.0 + math.cos(i)) / 2.0
        if not abs(k - k2) <= 0.01:
            self.add("illuminated-geometry", "illuminated fraction %.5f but (1+cos i)/2 = %.5f from the Sun-Earth-Moon geometry at JDE %r" % (k, k2, jde), jde, rp)
        # declination bounded by obliquity + latitude
        if not abs(_f(dec)) <= 23.9 + 5.35:
            self.add("declination-range", "declination %.3f at JDE %r" % (_f(dec), jde), jde, rp)
        sd = (math.sin(math.radians(_f(ba))) * math.cos(math.radians(23.44)) +
              math.cos(math.radians(_f(ba))) * math.sin(math.radians(23.44)) * math.sin(math.radians(_f(la))))
        if not abs(_f(dec) - math.degrees(math.asin(max(-1, min(1, sd))))) <= 0.5:
            self.add("equatorial-transform", "declination %.3f does not follow from the apparent ecliptical position at JDE %r" % (_f(dec), jde), jde, rp)

    # ---- node / perigee secular motion
    def nodes(self, jde):
        Moon, Epoch = self.Moon, self.Epoch
        self.n += 1
        rp = "e=Epoch(%r); print(Moon.longitude_mean_ascending_node(e), Moon.longitude_true_ascending_node(e), Moon.longitude_mean_perigee(e))" % jde
        try:
            e0, e1 = Epoch(jde), Epoch(jde + 36.525)       # a thousandth of a century
            om0, om1 = _f(Moon.longitude_mean_ascending_node(e0)), _f(Moon.longitude_mean_ascending_node(e1))
            ot0 = _f(Moon.longitude_true_ascending_node(e0))
            pi0, pi1 = _f(Moon.longitude_mean_perigee(e0)), _f(Moon.longitude_mean_perigee(e1))
        except Exception as ex:
            self.add("nodes-raise", "node/perigee longitude at JDE %r raises %r" % (jde, ex), jde, rp)
            return
        self.nontriv += 1
        rate_n = _wrap(om1 - om0) * 1000.0
        rate_p = _wrap(pi1 - pi0) * 1000.0
        if not abs(rate_n - (-1934.136)) <= 0.5:
            self.add("node-rate", "mean node moves at %.3f deg/century at JDE %r (secular -1934.136)" % (rate_n, jde), jde, rp)
        if not abs(rate_p - 4069.01) <= 1.5:
            self.add("perigee-rate", "mean perigee moves at %.3f deg/century at JDE %r (secular +4069.01)" % (rate_p, jde), jde, rp)
        if not (0.0 <= om0 < 360.0):
            self.add("node-range", "mean node %r at JDE %r outside [0,360)" % (om0, jde), jde, rp)
        if not abs(_wrap(ot0 - om0)) <= 1.97:
            self.add("true-node", "true node differs from the mean node by %.4f deg at JDE %r (periodic terms sum to 1.9682)" % (_wrap(ot0 - om0), jde), jde, rp)
        T = (jde - 2451545.0) / 36525.0
        wn = 125.0445479 + (-1934.1362891 + (0.0020754 + (1.0 / 476441.0 - T / 60616000.0) * T) * T) * T
        wp = 83.3532465 + (4069.0137287 + (-0.01032 + (-1.0 / 80053.0 + T / 18999000.0) * T) * T) * T
        if not abs(_wrap(om0 - wn)) <= 1e-6:
            self.add("node-value", "mean node %.6f at JDE %r, Meeus 47.7 gives %.6f" % (om0, jde, wn % 360), jde, rp)
        if not abs(_wrap(pi0 - wp)) <= 1e-6:
            self.add("perigee-value", "mean perigee %.6f at JDE %r, Meeus gives %.6f" % (pi0, jde, wp % 360), jde, rp)

    # ---- an event returned by a finder agrees with the position theory
    def event(self, fn, tg, res, q):
        Moon, Sun, Epoch = self.Moon, self.Sun, self.Epoch
        rj = (res[0] if isinstance(res, tuple) else res).jde()
        rp = "r=Moon.%s(Epoch(%r), target=%r); print(r)" % (fn, q, tg)
        self.n += 1
        try:
            e = Epoch(rj)
            if fn == "moon_phase":
                la = _f(Moon.apparent_ecliptical_pos(e)[0]); ls = _f(Sun.apparent_geocentric_position(e)[0])
                dd = _wrap(la - ls - PHASE_ANGLE[tg])
                if not abs(dd) <= 0.06:
                    self.add("phase-angle", "moon_phase(%r, %r) -> JDE %r where Moon-Sun apparent longitude is %.4f deg off %g" % (q, tg, rj, dd, PHASE_ANGLE[tg]), [fn, tg, q], rp)
            elif fn == "moon_perigee_apogee":
                d0 = Moon.geocentric_ecliptical_pos(e)
                s = 1.0 if tg == "perigee" else -1.0
                g = lambda t: s * Moon.geocentric_ecliptical_pos(Epoch(t))[2]
                # the extremum of the position theory lies within 0.25 day: the distance still falls a quarter
                # day before the result and rises again a quarter day after it
                sl_b = g(rj - 0.25 + 0.01) - g(rj - 0.25 - 0.01)
                sl_a = g(rj + 0.25 + 0.01) - g(rj + 0.25 - 0.01)
                if not (sl_b < 0.0 < sl_a):
                    self.add("distance-extremum", "moon_perigee_apogee(%r, %r) -> JDE %r: distance %.1f km is not extremal within 0.25 day (slopes %.2f / %.2f km per 0.02 d at -0.25 / +0.25 d)" % (q, tg, rj, d0[2], s * sl_b, s * sl_a), [fn, tg, q], rp)
                if not abs(_f(res[1]) - _f(d0[3])) <= 0.001:
                    self.add("extremum-parallax", "moon_perigee_apogee(%r, %r): reported parallax %.5f, position theory %.5f deg" % (q, tg, _f(res[1]), _f(d0[3])), [fn, tg, q], rp)
            elif fn == "moon_passage_nodes":
                b = _f(Moon.geocentric_ecliptical_pos(e)[1])
                if not abs(b) <= 0.02:
                    self.add("node-latitude", "moon_passage_nodes(%r, %r) -> JDE %r where the latitude is %.4f deg" % (q, tg, rj, b), [fn, tg, q], rp)
                b1 = _f(Moon.geocentric_ecliptical_pos(Epoch(rj + 0.5))[1])
                if (b1 > 0) != (tg == "ascending"):
                    self.add("node-direction", "moon_passage_nodes(%r, %r): latitude half a day later is %.3f" % (q, tg, b1), [fn, tg, q], rp)
            else:
                d0 = _f(Moon.apparent_equatorial_pos(e)[1])
                s = -1.0 if tg == "northern" else 1.0
                g = lambda t: s * _f(Moon.apparent_equatorial_pos(Epoch(t))[1])
                sl_b = g(rj - 0.25 + 0.01) - g(rj - 0.25 - 0.01)
                sl_a = g(rj + 0.25 + 0.01) - g(rj + 0.25 - 0.01)
                if not (sl_b < 0.0 < sl_a):
                    self.add("declination-extremum", "moon_maximum_declination(%r, %r) -> JDE %r: declination %.4f is not extremal within 0.25 day (slopes %.5f / %.5f deg per 0.02 d at -0.25 / +0.25 d)" % (q, tg, rj, d0, s * sl_b, s * sl_a), [fn, tg, q], rp)
                if not abs(d0 - _f(res[1])) <= 0.15:
                    self.add("declination-value", "moon_maximum_declination(%r, %r): reported %.4f deg, position theory %.4f deg" % (q, tg, _f(res[1]), d0), [fn, tg, q], rp)
        except Exception as ex:
            self.add("event-check-raises", "checking %s(%r, %r) raises %r" % (fn, q, tg, ex), [fn, tg, q], rp)

    # ---- sweep of consecutive queries (every calendar day of a year, both calendars handled by Epoch)
    def sweep_year(self, y, check_events=True, step=1.0):
        Moon, Epoch = self.Moon, self.Epoch
        try:
            j0 = Epoch(y, 1, 1.0).jde(); j1 = Epoch(y + 1, 1, 1.0).jde() if y < 4000 else j0 + 366
        except Exception as ex:
            self.add("epoch-raises", "Epoch(%d,1,1) raises %r" % (y, ex), y, "print(Epoch(%d,1,1.0))" % y)
            return
        for (fn, tg, per, (glo, ghi)) in FINDERS:
            f = getattr(Moon, fn)
            prev = None
            q = j0
            while q < j1:
                self.n += 1
                rp = "r=Moon.%s(Epoch(%r), target=%r); print(r)" % (fn, q, tg)
                try:
                    res = f(Epoch(q), target=tg)
                    rj = (res[0] if isinstance(res, tuple) else res).jde()
                except Exception as ex:
                    self.add("finder-raises", "Moon.%s(Epoch(%r) = %r, %r) raises %r" % (fn, q, self._date(q), tg, ex), [fn, tg, q], rp)
                    q += step; continue
                off = (rj - q) / per
                if not abs(off) <= 1.6:
                    # known finding: drift of the year-fraction index, late years only and always later than the query;
                    # anything else beyond 1.6 months gets its own key
                    late = off > 0 and q >= 2634166.5      # 1 Jan 2500
                    self.add("query-distance-1.6-months" if late else "query-distance-1.6-months-other", "Moon.%s(Epoch(%r), %r) -> JDE %r, %.3f months from the query" % (fn, q, tg, rj, off), [fn, tg, q], rp)
                if not abs(off) <= 2.0:
                    self.add("query-distance-gross", "Moon.%s(Epoch(%r), %r) -> JDE %r, %.3f months from the query (> 2.0)" % (fn, q, tg, rj, off), [fn, tg, q], rp)
                if prev is not None:
                    if rj < prev[0] - 1e-9:
                        self.add("moves-backwards", "Moon.%s(.., %r): query %r -> %r but earlier query %r -> %r" % (fn, tg, q, rj, prev[1], prev[0]), [fn, tg, prev[1], q],
                                 "print(Moon.%s(Epoch(%r), target=%r), Moon.%s(Epoch(%r), target=%r))" % (fn, prev[1], tg, fn, q, tg))
                    elif rj > prev[0] + 1e-6:
                        gap = rj - prev[0]
                        self.nontriv += 1
                        if not (glo <= gap <= ghi):
                            self.add("spacing", "Moon.%s(.., %r): consecutive results %r and %r are %.3f days apart (one month is %.2f..%.2f)" % (fn, tg, prev[0], rj, gap, glo, ghi), [fn, tg, prev[1], q],
                                     "print(Moon.%s(Epoch(%r), target=%r), Moon.%s(Epoch(%r), target=%r))" % (fn, prev[1], tg, fn, q, tg))
                        if check_events:
                            self.event(fn, tg, res, q)
                prev = (rj, q)
                q += step

    def _date(self, q):
        try:
            return tuple(self.Epoch(q).get_date())
        except Exception:
            return None

    def year_turns(self, years):
        """the query advancing across the turn of a year (31 Dec 18:00 / 23:45 -> 1 Jan 00:00 / 06:00): the fractional
        year restarts there, so a wrong year length (leap years!) makes every finder jump back one month"""
        Moon, Epoch = self.Moon, self.Epoch
        for y in years:
            try:
                j1 = Epoch(y + 1, 1, 1.0).jde()
            except Exception as ex:
                self.add("epoch-raises", "Epoch(%d,1,1) raises %r" % (y + 1, ex), y, "print(Epoch(%d,1,1.0))" % (y + 1)); continue
            qs = [j1 - 0.25, j1 - 0.01, j1, j1 + 0.25]
            for (fn, tg, per, _) in FINDERS:
                f = getattr(Moon, fn)
                prev = None
                for q in qs:
                    self.n += 1
                    try:
                        res = f(Epoch(q), target=tg)
                        rj = (res[0] if isinstance(res, tuple) else res).jde()
                    except Exception as ex:
                        self.add("finder-raises", "Moon.%s(Epoch(%r), %r) raises %r" % (fn, q, tg, ex), [fn, tg, q],
                                 "print(Moon.%s(Epoch(%r), target=%r))" % (fn, q, tg)); prev = None; continue
                    if prev is not None and rj < prev[0] - 1e-9:
                        self.add("moves-backwards", "Moon.%s(.., %r) across the turn of the year %d/%d: query %r -> %r but the earlier query %r -> %r"
                                 % (fn, tg, y, y + 1, q, rj, prev[1], prev[0]), [fn, tg, prev[1], q],
                                 "print(Moon.%s(Epoch(%r), target=%r), Moon.%s(Epoch(%r), target=%r))" % (fn, prev[1], tg, fn, q, tg))
                    prev = (rj, q)
                self.nontriv += 1

    def leap_days(self):
        """29 Feb / 1 Mar / 31 Dec of Julian century years: totality of every finder and target"""
        Moon, Epoch = self.Moon, self.Epoch
        for y in JULIAN_CENTURIES + [-2000, -1000, -100, 0, 4, 1580, 1600, 2000, 2400, 1582]:
            for (m, d) in ((2, 28.0), (2, 29.0), (2, 29.99), (3, 1.0), (12, 31.0), (12, 31.99), (1, 1.0), (10, 4.5), (10, 15.0)):
                if (m, int(d)) == (2, 29) and not Epoch.is_leap(y):
                    continue
                for (fn, tg, per, _) in FINDERS:
                    self.n += 1
                    rp = "print(Moon.%s(Epoch(%d,%d,%r), target=%r))" % (fn, y, m, d, tg)
                    try:
                        q = Epoch(y, m, d)
                        res = getattr(Moon, fn)(q, target=tg)
                        rj = (res[0] if isinstance(res, tuple) else res).jde()
                        self.nontriv += 1
                        if not abs(rj - q.jde()) / per <= 2.0:
                            self.add("query-distance-gross", "Moon.%s(Epoch(%d,%d,%r), %r) -> %.3f months from the query" % (fn, y, m, d, tg, (rj - q.jde()) / per), [fn, tg, y, m, d], rp)
                    except Exception as ex:
                        self.add("finder-raises", "Moon.%s(Epoch(%d,%d,%r), %r) raises %r" % (fn, y, m, d, tg, ex), [fn, tg, y, m, d], rp)

    def targets(self):
        Moon, Epoch = self.Moon, self.Epoch
        e = Epoch(2000, 1, 1.0)
        valid = {"moon_phase": ["new", "first", "full", "last"], "moon_perigee_apogee": ["perigee", "apogee"],
                 "moon_passage_nodes": ["ascending", "descending"], "moon_maximum_declination": ["northern", "southern"]}
        allstr = sorted({t for v in valid.values() for t in v} | {"", "New", "NEW", "new ", "half", "north", "south", "up", "x"})
        for fn, ok in valid.items():
            f = getattr(Moon, fn)
            for t in allstr + [None, 1, 0.5, ["new"]]:
                self.n += 1
                rp = "print(Moon.%s(Epoch(2000,1,1.0), target=%r))" % (fn, t)
                try:
                    f(e, target=t); got = "value"
                except TypeError: got = "TypeError"
                except ValueError: got = "ValueError"
                except Exception as ex: got = type(ex).__name__
                want = "value" if t in ok else "ValueError" if isinstance(t, str) else "TypeError"
                if got != want:
                    self.add("target-string", "Moon.%s(.., target=%r) gives %s, expected %s" % (fn, t, got, want), [fn, t], rp)
            for bad in (2451545.0, None, "2000-01-01"):
                self.n += 1
                try:
                    f(bad, target=ok[0]); got = "value"
                except TypeError: got = "TypeError"
                except Exception as ex: got = type(ex).__name__
                if got != "TypeError":
                    self.add("epoch-type", "Moon.%s(%r, ..) gives %s, expected TypeError" % (fn, bad, got), [fn, repr(bad)],
                             "print(Moon.%s(%r, target=%r))" % (fn, bad, ok[0]))
            # default target = first valid one
            self.n += 1
            a, b = f(e), f(e, target=ok[0])
            ja = (a[0] if isinstance(a, tuple) else a).jde(); jb = (b[0] if isinstance(b, tuple) else b).jde()
            if ja != jb:
                self.add("target-default", "Moon.%s default target differs from %r" % (fn, ok[0]), [fn], "print(Moon.%s(Epoch(2000,1,1.0)))" % fn)

    def anchors(self):
        """Meeus' worked examples (independent numbers)"""
        Moon, Epoch = self.Moon, self.Epoch
        chk = [
            ("phase-angle", lambda: Moon.moon_phase(Epoch(1977, 2, 15.0), target="new").jde(), 2443192.65118, 2e-4, "moon_phase(Epoch(1977,2,15),'new') JDE (Meeus ex. 49.a)"),
            ("phase-angle", lambda: Moon.moon_phase(Epoch(2044, 1, 1.0), target="last").jde(), 2467636.49186, 2e-4, "moon_phase(Epoch(2044,1,1),'last') JDE (Meeus ex. 49.b)"),
            ("distance-extremum", lambda: Moon.moon_perigee_apogee(Epoch(1988, 10, 1.0), target="apogee")[0].jde(), 2447442.3543, 2e-3, "apogee of Oct 1988 (Meeus ex. 50.a)"),
            ("node-latitude", lambda: Moon.moon_passage_nodes(Epoch(1987, 5, 15.0), target="ascending").jde(), 2446938.76803, 2e-4, "node passage of May 1987 (Meeus ex. 51.a)"),
            ("declination-extremum", lambda: Moon.moon_maximum_declination(Epoch(1988, 12, 15.0), target="northern")[0].jde(), 2447518.3347, 2e-3, "northern declination Dec 1988 (Meeus ex. 52.a)"),
            ("distance-range", lambda: Moon.geocentric_ecliptical_pos(Epoch(1992, 4, 12.0))[2], 368409.7, 0.1, "distance 1992 Apr 12 (Meeus ex. 47.a)"),
            ("latitude-range", lambda: float(Moon.geocentric_ecliptical_pos(Epoch(1992, 4, 12.0))[1]), -3.229126, 2e-6, "latitude 1992 Apr 12 (Meeus ex. 47.a)"),
            ("daily-motion", lambda: float(Moon.geocentric_ecliptical_pos(Epoch(1992, 4, 12.0))[0]), 133.162655, 2e-6, "longitude 1992 Apr 12 (Meeus ex. 47.a)"),
        ]
        for key, f, want, tol, what in chk:
            self.n += 1
            try:
                got = f()
            except Exception as ex:
                self.add(key, "%s raises %r" % (what, ex), what, "pass"); continue
            if not abs(got - want) <= tol:
                self.add(key, "%s = %r, published %r" % (what, got, want), what, "pass")


def search(rng, tier, deep):
    mods = load(["Moon", "Sun", "Epoch"])
    o = Oracle(mods)
    full = deep or tier == "thorough"
    o.targets()
    o.leap_days()
    # the turn of every leap year (and of sampled / all other years): never backwards across 31 Dec -> 1 Jan
    Ep = mods["Epoch"].Epoch
    turn_years = [y for y in range(-2000, 4000) if full or Ep.is_leap(y) or y % 13 == 0]
    o.year_turns(turn_years)
    # positions: random epochs in -2000..4000 plus the ends
    npos = 1500 if full else 250
    js = [JD_LO, JD_HI - 1.0, 2451545.0] + [rng.uniform(JD_LO, JD_HI - 1.0) for _ in range(npos)]
    for j in js:
        o.position(j)
    for j in js[:400 if full else 120]:
        o.nodes(j)
    # finder sweeps: every calendar day of the sample years (both calendars), events checked against the position theory
    years = list(FIXED_YEARS)
    if full:
        years += JULIAN_CENTURIES + [rng.randint(-2000, 4000) for _ in range(25)]
    else:
        years = [-2000, 100, 1500, 1582, 2000, 4000] + [rng.choice(JULIAN_CENTURIES), rng.randint(-2000, 4000), rng.randint(-2000, 4000)]
    years = sorted(set(years))
    for y in years:
        o.sweep_year(y, check_events=True)
    o.anchors()      # last: the sweep findings above carry a full replay command
    stats = {"evaluations": o.n, "distinct_nontrivial": o.nontriv,
             "rule": ("%d instants in -2000..4000 (envelopes, parallax, daily motion, illuminated fraction vs geometry, node/perigee rates); "
                      "every calendar day of the years %s x 10 finder/target pairs (totality, never backwards, spacing, 1.6/2.0 months from the query; "
                      "each distinct event checked against the position theory with the property's tolerances); leap days of Julian century years; "
                      "every target string / wrong types; Meeus' worked examples") % (len(js), years),
             "samples": [{"input": "Moon.moon_phase(Epoch(1977,2,15.0),'new')", "checked": "Moon-Sun apparent longitude within 0.06 deg of 0 at the result"},
                         {"input": "Moon.geocentric_ecliptical_pos(Epoch(1992,4,12.0))", "checked": "distance, latitude, parallax=asin(6378.14/d), motion"}],
             "finding_counts": o.keys}
    return o.findings, stats
