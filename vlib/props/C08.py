"""C08 — Sun/Earth positions agree across frames; obliquity and nutation are sane."""
import datetime, math
from vlib import common as K
from vlib.impl import load

ID = "C08"
MODULES = K.mods("base", "Angle", "Epoch", "Interpolation", "Coordinates", "Earth", "Sun", "Moon")
REQUIRED = ["Sun.geometric_geocentric_position", "Sun.apparent_geocentric_position",
            "Sun.rectangular_coordinates_mean_equinox", "Sun.rectangular_coordinates_j2000",
            "Sun.rectangular_coordinates_b1950", "Sun.rectangular_coordinates_equinox",
            "Sun.true_longitude_coarse", "Sun.apparent_longitude_coarse",
            "Sun.apparent_rightascension_declination_coarse",
            "Earth.geometric_heliocentric_position", "Earth.apparent_heliocentric_position",
            "Earth.geometric_heliocentric_position_j2000",
            "mean_obliquity", "true_obliquity", "nutation_longitude", "nutation_obliquity",
            "geometric_vsop_pos", "apparent_vsop_pos", "vsop_pos",
            "Moon.longitude_mean_ascending_node", "Angle.__init__", "Angle.to_positive", "Angle.__add__",
            "Angle.__neg__", "Angle.rad", "Epoch.check_input_date"]
THEOREMS = ["C08_mean_obliquity_polynomial", "C08_mean_obliquity_vs_IAU", "C08_true_obliquity_is_sum",
            "C08_sun_geometric_is_earth_reflected", "C08_sun_apparent_is_earth_reflected", "C08_reflected_longitude",
            "C08_rectangular_of_date_norm", "C08_latitude_term_small", "C08_rectangular_j2000_norm",
            "C08_rectangular_j2000_closed_form", "C08_rectangular_b1950_closed_form", "C08_b1950_refuted",
            "C08_rectangular_equinox_closed_form", "C08_equinox_angles", "C08_rectangular_equinox_norm",
            "C08_equinox_T_refuted", "C08_true_longitude_coarse_closed_form", "C08_coarse_constants",
            "C08_apparent_longitude_coarse_closed_form",
            "C08_moon_node_closed_form", "C08_moon_node_constants", "C08_node_agreement",
            "C08_true_obliquity_structure", "C08_sun_errors_propagate", "C08_equinox_frame_refuted",
            "C08_node_nutation_constants",
            "C08_nutation_longitude_structure", "C08_nutation_obliquity_structure", "C08_nutation_remainders",
            "C08_nutation_longitude_main_term", "C08_nutation_obliquity_main_term",
            "C08_true_obliquity_closed", "C08_equation_of_equinoxes",
            "C08_earth_callee_shape", "C08_sun_geometric_unconditional", "C08_rectangular_of_date_norm_unconditional",
            "C08_earth_j2000_callee_shape", "C08_rectangular_j2000_norm_unconditional",
            "C08_rectangular_equinox_norm_unconditional", "C08_true_minus_mean_bound",
            "C08_sun_apparent_unconditional", "C08_nutation_shapes_wide"]
PROOF_TIMEOUT = {"quick": 2200, "thorough": 3000}
EXHAUSTIVE = False
MANIFEST = {
    "category": "proof",
    "text": "Ideal (real-number) instance of the regenerated model, Epoch arguments. PROPERTY CLAUSES PROVED: mean obliquity = Laskar polynomial and within 3 arcsec of the IAU cubic for |T| <= 20; nutation in longitude / obliquity within 3.5 / 1.5 arcsec of the main term on the Moon module's node for |T| <= 20 (generic loop theorem instantiated on the generated double loop, amplitude sums over the extracted tables, node polynomials bridged on both sides); true obliquity = mean + nutation unconditionally for |T| <= 20; Sun geometric position = Earth's reflected, unconditionally for tofk5 = True over years -2000..6000 (the Earth callee's result shape and |lat| <= 0.00065 deg are proved from property C07's imported theorems about the VSOP87 evaluator and the regenerated tables); apparent position likewise for nutation = True over years -2000..6000; the flag-off variants (tofk5 = False, nutation = False) stay CONDITIONAL on the callee's documented shape (validated by the correspondence every run; errors propagate); rectangular norms, all unconditional: of date | |xyz|/r - 1 | <= 2e-10 (exactly norm^2 = r^2 (1 + sin^2 lat): the code takes cos(lat) = 1 as Meeus does), J2000 and arbitrary equinox 2e-12; |true - mean obliquity| <= 9.2025 + 0.00089|T| + 0.89 arcsec. REFUTED IN COQ (known findings): B1950 norm (~ C08_b1950_norm_full), equinox rotation vs Meeus T = 0 beyond 2 arcsec (~ C08_equinox_frame_full). CLOSED FORMS THAT ONLY PIN THE CODE (no property clause follows): rectangular_coordinates_j2000/_b1950/_equinox, true/apparent_longitude_coarse, Moon.longitude_mean_ascending_node. UNPROVED, SEARCHED ONLY: frame agreement with the library's precession (2 arcsec / 1e-5 AU; 3 genuine defects recorded as bounded known findings), coarse vs VSOP87 0.02 degree, date-argument forms other than Epoch, everything about binary64 rounding.",
    "technique": "symbolic evaluation (pyrun / call-by-value pyrunv) of the generated model over the reals with opaque callees + interval/lra/ring; generated model + bit-exact differential correspondence; dense search for the numeric clauses",
    "design_ref": "8/C08",
}
EXPLANATION = ("The Coq model of Sun/Earth/Coordinates/Moon regenerated from /repo is read over the real numbers (same text as the "
               "binary64 instance that is compared bit for bit with the implementation). Property clauses proved there (Epoch arguments): mean "
               "obliquity vs IAU cubic (3 arcsec, |T| <= 20), nutation in longitude/obliquity vs the main term on the Moon's node (3.5 / 1.5 arcsec, "
               "|T| <= 20), true = mean + nutation, Sun = Earth reflected (Earth callee abstracted by its documented result shape), J2000 and "
               "arbitrary-equinox rectangular norms. Refuted there: B1950 norm, equinox rotation vs Meeus' T = 0 (known findings). "
               "Closed forms of the frame functions, the coarse formulas and the Moon node pin every constant of the code but prove no clause. "
               "Frame agreement with the library's precession and coarse vs VSOP87 are searched densely on the implementation, not proved.")
CLAUSES = {
    # wording: "property clause proved" = a clause of the property text is a theorem;
    #          "closed form (pins the code)" = the generated function equals an explicit formula: a mutation of any
    #          constant/sign breaks the proof, but no clause of the property follows from it.
    "Sun geometric position = Earth position reflected (lon+180 reduced to [0,360), -lat, same r)": "property clause proved [ideal]: for any result of the Earth callee of the documented shape, tofk5 on/off (C08_sun_geometric_is_earth_reflected; callee errors propagate: C08_sun_errors_propagate); UNCONDITIONALLY for tofk5 = True and every epoch in years -2000..6000 (C08_sun_geometric_unconditional): the callee's shape is itself proved (C08_earth_callee_shape, from property C07's imported theorems: VSOP87 evaluator = direct sum over the regenerated tables, FK5 correction, amplitude envelope), with |latitude| <= 0.00065 degree. tofk5 = False: still conditional on the shape",
    "Sun apparent position = Earth apparent position reflected": "property clause proved [ideal]: for any result of the Earth callee of the documented shape, nutation on/off (C08_sun_apparent_is_earth_reflected; callee errors propagate); UNCONDITIONALLY for nutation = True and |T| <= 40 centuries = years -2000..6000 (C08_sun_apparent_unconditional; nutation shape over that range: C08_nutation_shapes_wide): apparent_vsop_pos on the Earth's tables = vsop_pos + FK5 + nutation (C08 structure theorem) + aberration (property C07's imported theorems), |lat| <= 0.00065 deg, 0.97 <= r <= 1.03 AU. nutation = False: still conditional on the shape; the code contains no step beyond the reflection",
    "rectangular coordinates of date have norm r": "property clause proved [ideal, Epoch argument, years -2000..6000], unconditionally: C08_rectangular_of_date_norm_unconditional: r^2 <= x^2+y^2+z^2 <= r^2 (1 + 4e-10), i.e. | |xyz|/r - 1 | <= 2e-10, against the 1e-5 AU of the property. The exact identity is norm^2 = r^2 (1 + sin^2 lat) (C08_rectangular_of_date_norm): the code follows Meeus (ch. 26: beta never exceeds 1.2 arcsec, cos beta taken as 1) and leaves out the factor cos(lat); the Sun's latitude is bounded by C08_earth_callee_shape (|lat| <= 0.00065 deg = amplitude sum 2.24 arcsec of the Earth's VSOP87 B series for |t| <= 4 millennia + FK5 term). On the implementation: worst | |xyz|/r - 1 | = 1.66e-11 over -16000..+16000 months around J2000 (at JDE 2304298.89, lat = 1.19 arcsec), equal to the predicted sqrt(1 + sin^2 lat) - 1: not a finding",
    "J2000 rectangular coordinates have norm r": "property clause proved [ideal] to 2e-12 relative (constant matrix with |M^T M - I| <= 2e-12), unconditionally for every epoch in years -2000..6000 (C08_rectangular_j2000_norm_unconditional: the J2000 Earth callee's result shape is proved, C08_earth_j2000_callee_shape)",
    "arbitrary-equinox rectangular coordinates have norm r": "property clause proved [ideal] to 2e-12 relative, unconditionally (C08_rectangular_equinox_norm_unconditional; equinox within 3 centuries of J2000.0, JDE 2.0e6..2.9e6): closed form (pins the code) of the generated function = rotation of the J2000 vector, that rotation is exactly orthogonal for all angles (C08_rectangular_equinox_norm), J2000 norm as above",
    "B1950 rectangular coordinates have norm r": "refuted: known finding norm-b1950 - closed form (pins the code) of the generated body (y uses the already rotated x, z the rotated x and y) and ~ C08_b1950_norm_full proved with the witness lon = 90, lat = 0, r = 1 (norm off by > 1e-7); implementation witness Sun.rectangular_coordinates_b1950(Epoch(2089055.144)): norm 1.00744, r = 1.01526",
    "J2000/B1950/arbitrary equinox positions = of-date position carried by the library's precession, 2 arcsec / 1e-5 AU, 1000-3000": "UNPROVED as a clause (searched); refuted on the implementation under known findings frame-j2000, frame-earth-j2000 (VSOP87_L_J2000 frequency typo 12556.15 for 12566.15, up to 144 arcsec), frame-b1950 (variable overwrite, up to 6925 arcsec), frame-equinox (T = epoch-equinox instead of 0, up to 234 arcsec); the same clause holds to 0.8 arcsec for the defect-free recomputation from the library's tables (searched). In Coq only: closed forms (pin the code) of the three generated functions (C08_rectangular_j2000/b1950/equinox_closed_form; C08_equinox_angles is a constant read-out), and two refutations on those closed forms: ~ C08_b1950_norm_full, and ~ C08_equinox_frame_full = the generated equinox rotation is NOT within 2 arcsec of the rotation Meeus prescribes (T = 0) at epoch 1000 / equinox 2300 (C08_equinox_T_refuted is the weaker polynomial-identity form). The J2000 table typo has no Coq statement",
    "mean obliquity within 3 arcsec of the IAU cubic for |T| <= 20": "property clause proved [ideal, for an Epoch argument]: the generated function is the explicit Laskar polynomial and interval bounds it against the independent IAU cubic",
    "nutation in longitude within 3.5 arcsec of -17.20 sin(Omega), Omega = Moon.longitude_mean_ascending_node": "property clause proved [ideal, Epoch argument, |T| <= 20 centuries]: C08_nutation_longitude_main_term - the generated double loop is an instance of the generic loop theorem (C08_nut_loop.nut_fix_spec, induction, any table length; unification with the generated text), so nutation_longitude = Angle(0,0, sum_i (a_i + b_i T) sin(sum_j n_ij F_j(T))/1e4) on the extracted tables (C08_nutation_longitude_structure); the rows after the first are bounded by their amplitudes read from the table: 2.25 arcsec (C08_nutation_remainders); the code's node polynomial is C08_node.node_nutation (reflexivity) and within 0.0024 deg of the Moon module's (C08_node_agreement, < 0.001 arcsec on the main term). Binary64 rounding: searched (worst 2.43 arcsec over -2000..4000)",
    "nutation in obliquity within 1.5 arcsec of 9.20 cos(Omega)": "property clause proved [ideal, Epoch argument, |T| <= 20 centuries]: C08_nutation_obliquity_main_term, same construction with the cosine table (49 rows; remainder 0.89 arcsec from the extracted amplitudes). Binary64 rounding: searched (worst 0.83 arcsec over -2000..4000)",
    "true obliquity = mean obliquity + nutation in obliquity": "property clause proved [ideal, Epoch argument, |T| <= 20], unconditionally: C08_true_obliquity_closed supplies both callee results from their own theorems (mean_obliquity polynomial, nutation_obliquity structure) and gives true_obliquity = ang(mean + deps/3600); C08_true_obliquity_structure is the form valid for any result of nutation_obliquity (errors propagate); C08_true_obliquity_is_sum is the conditional corollary, its premises now shown satisfiable; size: |true - mean| <= 9.2025 + 0.00089 |T| + 0.89 arcsec (C08_true_minus_mean_bound)",
    "(clause of C16, proved here because this model contains Coordinates AND Epoch) apparent - mean sidereal time under 1.2 s": "proved [ideal, Epoch argument, T in [-10.5, 8.5] centuries = years 950..2850]: C08_equation_of_equinoxes - Epoch.apparent_sidereal_time applied to the values the generated true_obliquity and nutation_longitude return differs from mean_sidereal_time by less than 1.2 s (nutation amplitude from C08_nutation_remainders, obliquity from C08_true_obliquity_closed, interval arithmetic on dpsi_max(T) cos(eps(T))/15; the worst-case amplitude bound gives 1.2001 s at T = -11 and 1.2003 s at T = 9, so this is the largest provable range with it); outside: searched in C16 (known finding beyond years -2000..4000)",
    "coarse solar formulas within 0.02 degree of VSOP87 in 1800-2200": "UNPROVED (searched): worst 0.0095 degree; global numeric statement about a 1000-term series. In Coq only closed forms (pin the code): true_longitude_coarse for |t| <= 10 centuries, apparent_longitude_coarse with its callee abstracted; C08_coarse_constants is a constant read-out; apparent_rightascension_declination_coarse has no theorem",
    "date arguments in every accepted form": "UNPROVED (searched): all theorems are for an Epoch argument; the other forms go through Epoch.check_input_date (C02); every documented form of a calendar day gives the same Angle (searched)",
    "known-finding keys": "frame-j2000 / frame-earth-j2000 <= 160 arcsec & 8e-4 AU, frame-equinox <= 290 arcsec & 1.5e-3 AU, frame-b1950 <= 8000 arcsec & 4e-2 AU, norm-b1950 <= 2e-2 AU, beyond: <key>-gross. The b1950 envelope is necessarily wide (2.2 degrees) while the overwrite stays; a further defect inside any envelope is caught by frame-*-unexpected (code must equal the defect-free or the known-defect recomputation to 2.5e-7 AU) and frame-*-vs-corrected (the defect-free recomputation must meet the 2 arcsec clause)",
}


# proof files of property C07 that C08 imports (VSOP87 evaluator = direct sum, FK5 correction, amplitude
# envelopes over the extracted tables); entries "../C07/x.v" are compiled inside this property's build
C07_DEPS = ["C07_defs.v", "C07_lib.v", "C07_angle.v", "C07_sec_a.v", "C07_sec_b.v", "C07_sec_c.v", "C07_sec.v",
            "C07_series.v", "C07_corr.v", "C07_mono.v", "C07_dec.v", "C07_mono_code.v", "C07_mono_earth.v"]
N_PA = 10   # C08_pa_<k>.v: Print Assumptions of the theorems of C08.v, compiled in parallel


def proof_files(tier):
    return (["C08_base.v", "C08_obliquity.v", "C08_sun.v", "C08_j2000.v", "C08_angle2.v", "C08_frames.v",
             "C08_equinox.v", "C08_coarse.v", "C08_node.v",
             "C08_nut_angle.v", "C08_nut_loop.v", "C08_nut_main.v", "C08_nut_bound.v", "C08_true.v", "C08_eqeq.v"]
            + ["../C07/" + f for f in C07_DEPS]
            + ["C08_lat.v", "C08_latj.v", "C08_uncond.v", "C08_wide.v", "C08_app.v", "C08.v"]
            + ["C08_pa_%d.v" % k for k in range(N_PA)])


# ----------------------------------------------------------------------------------------------
# correspondence cases

def _rand_epoch_expr(rng, lo=-2000, hi=4000):
    y = rng.randint(lo, hi)
    m = rng.randint(1, 12)
    d = rng.randint(1, 28) + rng.choice([0.0, 0.5, round(rng.random(), 4)])
    return "Epoch(%d, %d, %r)" % (y, m, d)


def cases(rng, tier):
    nv = 3 if tier == "quick" else 12      # per VSOP-based function
    nc = 25 if tier == "quick" else 200
    cs = []
    vs = ["Sun.geometric_geocentric_position(%s)", "Sun.geometric_geocentric_position(%s, tofk5=False)",
          "Sun.apparent_geocentric_position(%s)", "Sun.apparent_geocentric_position(%s, nutation=False)",
          "Sun.rectangular_coordinates_mean_equinox(%s)", "Sun.rectangular_coordinates_j2000(%s)",
          "Sun.rectangular_coordinates_b1950(%s)", "Earth.geometric_heliocentric_position(%s)",
          "Earth.geometric_heliocentric_position_j2000(%s)", "Earth.apparent_heliocentric_position(%s)"]
    for v in vs:
        n = nv if "rectangular" in v or "Sun.geo" in v else max(1, nv - 1)
        for _ in range(n):
            cs.append(v % _rand_epoch_expr(rng, 1000, 3000))
    for _ in range(nv):
        cs.append("Sun.rectangular_coordinates_equinox(%s, %s)" % (_rand_epoch_expr(rng, 1000, 3000),
                                                                   _rand_epoch_expr(rng, 1700, 2300)))
    cs.append("Sun.geometric_geocentric_position(Epoch(1992, 10, 13.0), tofk5=False)")
    for _ in range(nc):
        e = _rand_epoch_expr(rng)
        cs += ["mean_obliquity(%s)" % e, "true_obliquity(%s)" % e, "nutation_longitude(%s)" % e,
               "nutation_obliquity(%s)" % e, "Moon.longitude_mean_ascending_node(%s)" % e]
        e = _rand_epoch_expr(rng, 1800, 2200)
        cs += ["Sun.true_longitude_coarse(%s)" % e, "Sun.apparent_longitude_coarse(%s)" % e,
               "Sun.apparent_rightascension_declination_coarse(%s)" % e]
    # date forms, errors
    cs += ["mean_obliquity(1987, 4, 10)", "true_obliquity(1987, 4, 10)", "nutation_longitude(1987, 4, 10)",
           "nutation_obliquity(1987, 4, 10)", "mean_obliquity((1987, 4, 10.5))", "mean_obliquity([1987, 4, 10.5])",
           "nutation_longitude(datetime.date(1987, 4, 10))", "nutation_obliquity(datetime.datetime(1987, 4, 10, 12, 30, 15))",
           "true_obliquity(datetime.date(2024, 2, 29))", "mean_obliquity(1987, 4, 10, utc=True)",
           "nutation_longitude(2016, 12, 31.75, utc=True)", "mean_obliquity(2451545.0)",
           "mean_obliquity('x')", "nutation_longitude(None)", "true_obliquity(1987, 13, 1)",
           "Sun.geometric_geocentric_position(2451545.0)", "Sun.apparent_geocentric_position(2451545.0)",
           "Sun.rectangular_coordinates_mean_equinox(None)", "Sun.rectangular_coordinates_j2000(2000)",
           "Sun.rectangular_coordinates_b1950('a')", "Sun.true_longitude_coarse(2451545.0)",
           "Sun.apparent_longitude_coarse(None)", "Sun.apparent_rightascension_declination_coarse(1)",
           "Moon.longitude_mean_ascending_node(2451545.0)",
           "Moon.longitude_mean_ascending_node(Epoch(1913, 5, 27.0))",
           "mean_obliquity(Epoch(-2000, 1, 1))", "mean_obliquity(Epoch(4000, 12, 31.9))"]
    return cs


# ----------------------------------------------------------------------------------------------
# search oracle

ARCSEC = 1.0 / 3600.0
B1950_JDE = 2433282.4235


def _wrap180(x):
    return (x + 180.0) % 360.0 - 180.0


def _iau_obliquity_deg(T):
    return (23.0 + 26.0 / 60.0 + 21.448 / 3600.0) + (-46.8150 * T - 0.00059 * T * T + 0.001813 * T ** 3) / 3600.0


class Oracle:
    def __init__(self, mods):
        self.m = mods
        self.Epoch = mods["Epoch"].Epoch
        self.Angle = mods["Angle"].Angle
        self.Sun = mods["Sun"].Sun
        self.Earth = mods["Earth"].Earth
        self.Moon = mods["Moon"].Moon
        self.C = mods["Coordinates"]
        self.findings = []
        self.keys = {}
        self.n = 0
        self.nontriv = 0
        self.worst = {}

    def fail(self, key, what, inp, replay):
        self.keys[key] = self.keys.get(key, 0) + 1
        if self.keys[key] <= 3:
            self.findings.append({"key": key, "what": what, "input": inp,
                                  "replay": "PYTHONPATH=%s /venv/bin/python -c \"%s\"" % (K.REPO, replay)})

    def track(self, name, v):
        if v > self.worst.get(name, -1.0): self.worst[name] = v

    def guard(self, key, inp, replay, fn):
        self.n += 1
        try:
            fn()
            self.nontriv += 1
        except Exception as ex:   # a position function must not raise on a valid Epoch
            self.fail(key + "-raises", "%s raises %s: %s" % (inp, type(ex).__name__, ex), inp, replay)

    # -- reflection ---------------------------------------------------------------------------
    def reflection(self, jde):
        E, S, Ea = self.Epoch, self.Sun, self.Earth
        imp = "from pymeeus.Sun import Sun; from pymeeus.Earth import Earth; from pymeeus.Epoch import Epoch; e=Epoch(%r); " % jde
        for flag in (True, False):
            def geo():
                l, b, r = Ea.geometric_heliocentric_position(E(jde), flag)
                ls, bs, rs = S.geometric_geocentric_position(E(jde), flag)
                want = (float(l.to_positive()) + 180.0) % 360.0
                d = abs(_wrap180(float(ls) - want))
                if not (0.0 <= float(ls) < 360.0):
                    self.fail("reflection-geometric-range", "Sun.geometric_geocentric_position(Epoch(%r), %r) longitude %r outside [0,360)" % (jde, flag, float(ls)), [jde, flag],
                              imp + "print(Sun.geometric_geocentric_position(e,%r)[0])" % flag)
                if d > 1e-9 or abs(float(bs) + float(b)) > 1e-12 or rs != r:
                    self.fail("reflection-geometric", "Sun.geometric_geocentric_position(Epoch(%r), tofk5=%r) = (%r, %r, %r) but Earth reflected = (%r, %r, %r)"
                              % (jde, flag, float(ls), float(bs), rs, want, -float(b), r), [jde, flag],
                              imp + "print([float(x) for x in Sun.geometric_geocentric_position(e,%r)], [float(x) for x in Earth.geometric_heliocentric_position(e,%r)])" % (flag, flag))
            self.guard("reflection-geometric", [jde, flag], imp + "print(Sun.geometric_geocentric_position(e,%r))" % flag, geo)

            def app():
                l, b, r = Ea.apparent_heliocentric_position(E(jde), flag)
                ls, bs, rs = S.apparent_geocentric_position(E(jde), flag)
                want = (float(l.to_positive()) + 180.0) % 360.0
                d = abs(_wrap180(float(ls) - want))
                if not (0.0 <= float(ls) < 360.0):
                    self.fail("reflection-apparent-range", "Sun.apparent_geocentric_position(Epoch(%r), %r) longitude %r outside [0,360)" % (jde, flag, float(ls)), [jde, flag],
                              imp + "print(Sun.apparent_geocentric_position(e,%r)[0])" % flag)
                if d > 1e-9 or abs(float(bs) + float(b)) > 1e-12 or rs != r:
                    self.fail("reflection-apparent", "Sun.apparent_geocentric_position(Epoch(%r), nutation=%r) = (%r, %r, %r) but Earth reflected = (%r, %r, %r)"
                              % (jde, flag, float(ls), float(bs), rs, want, -float(b), r), [jde, flag],
                              imp + "print([float(x) for x in Sun.apparent_geocentric_position(e,%r)], [float(x) for x in Earth.apparent_heliocentric_position(e,%r)])" % (flag, flag))
            self.guard("reflection-apparent", [jde, flag], imp + "print(Sun.apparent_geocentric_position(e,%r))" % flag, app)

        # apparent = geometric + nutation + aberration (what 'apparent form' means in the code's own terms)
        def appgeo():
            e = E(jde)
            lg, bg, rg = S.geometric_geocentric_position(e)
            la, ba, ra = S.apparent_geocentric_position(e)
            dpsi = float(self.C.nutation_longitude(e))
            want = dpsi - 20.4898 / rg * ARCSEC
            d = abs(_wrap180(float(la) - float(lg)) - want)
            if d > 0.01 * ARCSEC or abs(float(ba) - float(bg)) > 1e-12 or ra != rg:
                self.fail("apparent-vs-geometric", "Sun apparent - geometric longitude at Epoch(%r) = %.6f arcsec, nutation + aberration = %.6f arcsec"
                          % (jde, _wrap180(float(la) - float(lg)) * 3600, want * 3600), [jde],
                          imp + "print(float(Sun.apparent_geocentric_position(e)[0])-float(Sun.geometric_geocentric_position(e)[0]))")
        self.guard("apparent-vs-geometric", [jde], imp + "print(Sun.apparent_geocentric_position(e))", appgeo)

    # -- frames -------------------------------------------------------------------------------
    @staticmethod
    def _rect2eq(x, y, z):
        r = math.sqrt(x * x + y * y + z * z)
        return math.atan2(y, x), math.asin(max(-1.0, min(1.0, z / r))), r

    def _carry(self, e, target, xyz):
        """of-date equatorial rectangular -> equatorial rectangular of `target` by the library's precession"""
        ra, dec, r = self._rect2eq(*xyz)
        A = self.Angle
        ra2, dec2 = self.C.precession_equatorial(e, target, A(ra, radians=True), A(dec, radians=True))
        a, d = ra2.rad(), dec2.rad()
        return (r * math.cos(d) * math.cos(a), r * math.cos(d) * math.sin(a), r * math.sin(d))

    def _cmp_rect(self, key, name, jde, got, want, r, imp, call):
        dist = math.sqrt(sum((a - b) ** 2 for a, b in zip(got, want)))
        ang = dist / r / math.radians(ARCSEC)       # arcsec as seen from the origin
        self.track(key + " [arcsec]", ang)
        if dist > 1e-5 or ang > 2.0:
            self.fail(key, "%s at Epoch(%r) = (%.9f, %.9f, %.9f); of-date position carried by precession_equatorial = (%.9f, %.9f, %.9f): %.2f arcsec, %.2e AU apart (allowed 2 arcsec, 1e-5 AU)"
                      % ((name, jde) + tuple(got) + tuple(want) + (ang, dist)), [jde], imp + "print(%s)" % call)

    def _norm(self, key, name, jde, xyz, r, imp, call):
        nrm = math.sqrt(sum(a * a for a in xyz))
        self.track(key + " [AU]", abs(nrm - r))
        if abs(nrm - r) > 1e-7 * max(1.0, r):
            lim = self.ENVELOPE.get(key)
            if lim and abs(nrm - r) > lim[1]: key = key + "-gross"
            self.fail(key, "%s at Epoch(%r): norm %.12f but radius vector %.12f (difference %.2e AU)" % (name, jde, nrm, r, nrm - r),
                      [jde], imp + "x,y,z=%s; print((x*x+y*y+z*z)**0.5, Sun.geometric_geocentric_position(e)[2])" % call)

    # independent recomputation of the J2000-based functions from the library's tables:
    # defects=False: the two VSOP87_L_J2000 frequencies 12556.15(17) read as 12566.15(17), B1950 matrix
    # applied to the un-overwritten vector, Meeus' T = 0 in the equinox variant;
    # defects=True: exactly what the code does today (the three known findings re-inserted)
    @staticmethod
    def _series(tab, t):
        return sum(sum(a * math.cos(b + c * t) for a, b, c in ser) * t ** i for i, ser in enumerate(tab)) / 1e8

    def _earth_j2000(self, jde, defects, tofk5=True):
        Em = self.m["Earth"]
        Lt = Em.VSOP87_L_J2000
        if not defects:
            def fx(c):
                if abs(c - 12556.1517) < 1e-9: return 12566.1517
                if abs(c - 12556.15) < 1e-9: return 12566.15
                return c
            Lt = [[[a, b, fx(c)] for a, b, c in ser] for ser in Lt]
        t = (jde - 2451545.0) / 365250.0
        lon = math.degrees(self._series(Lt, t)) % 360.0
        lat = math.degrees(self._series(Em.VSOP87_B_J2000, t))
        r = self._series(Em.VSOP87_R, t)
        if tofk5:
            T = 10.0 * t
            lp = math.radians(lon - T * (1.397 + 0.00031 * T))
            dl = (-0.09033 + 0.03916 * (math.cos(lp) + math.sin(lp)) * math.tan(math.radians(lat))) / 3600.0
            db = 0.03916 * (math.cos(lp) - math.sin(lp)) / 3600.0
            lon, lat = (lon + dl) % 360.0, lat + db
        return lon, lat, r

    def _sun_rect(self, jde, variant, eqx, defects):
        lon, lat, r = self._earth_j2000(jde, defects)
        lo, la = math.radians(lon + 180.0), math.radians(-lat)
        x, y, z = r * math.cos(la) * math.cos(lo), r * math.cos(la) * math.sin(lo), r * math.sin(la)
        if variant == "b1950":
            if defects:
                x = 0.999925702634 * x + 0.012189716217 * y + 0.000011134016 * z
                y = -0.011179418036 * x + 0.917413998946 * y - 0.397777041885 * z
                z = -0.004859003787 * x + 0.397747363646 * y + 0.917482111428 * z
                return x, y, z
            return (0.999925702634 * x + 0.012189716217 * y + 0.000011134016 * z,
                    -0.011179418036 * x + 0.917413998946 * y - 0.397777041885 * z,
                    -0.004859003787 * x + 0.397747363646 * y + 0.917482111428 * z)
        x0 = x + 0.00000044036 * y - 0.000000190919 * z
        y0 = -0.000000479966 * x + 0.917482137087 * y - 0.397776982902 * z
        z0 = 0.397776982902 * y + 0.917482137087 * z
        if variant == "j2000":
            return x0, y0, z0
        t = (eqx - 2451545.0) / 36525.0
        tt = (jde - eqx) / 36525.0 if defects else 0.0
        zeta = t * ((2306.2181 + tt * (1.39656 - 0.000139 * tt)) + t * ((0.30188 - 0.000344 * tt) + 0.017998 * t))
        zz = t * ((2306.2181 + tt * (1.39656 - 0.000139 * tt)) + t * ((1.09468 + 0.000066 * tt) + 0.018203 * t))
        th = t * (2004.3109 + tt * (-0.85330 - 0.000217 * tt) + t * (-(0.42665 + 0.000217 * tt) - 0.041833 * t))
        ze, zr, tr = (math.radians(v / 3600.0) for v in (zeta, zz, th))
        xx = math.cos(ze) * math.cos(zr) * math.cos(tr) - math.sin(ze) * math.sin(zr)
        xy = math.sin(ze) * math.cos(zr) + math.cos(ze) * math.sin(zr) * math.cos(tr)
        xz = math.cos(ze) * math.sin(tr)
        yx = -math.cos(ze) * math.sin(zr) - math.sin(ze) * math.cos(zr) * math.cos(tr)
        yy = math.cos(ze) * math.cos(zr) - math.sin(ze) * math.sin(zr) * math.cos(tr)
        yz = -math.sin(ze) * math.sin(tr)
        zx = -math.cos(zr) * math.sin(tr)
        zy = -math.sin(zr) * math.sin(tr)
        zzz = math.cos(tr)
        return (xx * x0 + yx * y0 + zx * z0, xy * x0 + yy * y0 + zy * z0, xz * x0 + yz * y0 + zzz * z0)

    # known-finding envelopes: measured maxima on the unchanged tree over 1000..3000 (dense grid incl. the
    # corners epoch 1000/3000 x equinox J2000 -+ 300 y): j2000 144.0, earth-j2000 143.9, equinox 233.7
    # (typo 144 + T-term up to ~114 when aligned = 258 at worst), b1950 6925 arcsec / norm 1.32e-2 AU; + >= 10 %
    ENVELOPE = {"frame-j2000": (160.0, 8e-4), "frame-earth-j2000": (160.0, 8e-4), "frame-equinox": (290.0, 1.5e-3),
                "frame-b1950": (8000.0, 4e-2), "norm-b1950": (None, 2e-2)}

    def _frame_clause(self, key, name, jde, got, carried, r, imp, call, variant, eqx):
        """got: library output; carried: of-date position carried by the library's precession"""
        dist = math.sqrt(sum((a - b) ** 2 for a, b in zip(got, carried)))
        ang = dist / r / math.radians(ARCSEC)
        self.track(key + " [arcsec]", ang)
        if dist > 1e-5 or ang > 2.0:
            lim = self.ENVELOPE.get(key)
            k = key if lim and ang <= lim[0] and dist <= lim[1] else key + "-gross"
            self.fail(k, "%s at Epoch(%r) = (%.9f, %.9f, %.9f); of-date position carried by precession_equatorial = (%.9f, %.9f, %.9f): %.2f arcsec, %.2e AU apart (allowed 2 arcsec, 1e-5 AU)"
                      % ((name, jde) + tuple(got) + tuple(carried) + (ang, dist)), [jde, eqx], imp + "print(%s)" % call)
        # the same clause for the corrected recomputation (independent of the known findings)
        cor = self._sun_rect(jde, variant, eqx, False)
        dist = math.sqrt(sum((a - b) ** 2 for a, b in zip(cor, carried)))
        ang = dist / r / math.radians(ARCSEC)
        self.track(key + "-vs-corrected [arcsec]", ang)
        if dist > 1e-5 or ang > 2.0:
            self.fail(key + "-vs-corrected", "%s recomputed from the library's tables without the known defects at Epoch(%r) = (%.9f, %.9f, %.9f); of-date position carried by precession_equatorial = (%.9f, %.9f, %.9f): %.2f arcsec, %.2e AU apart (allowed 2 arcsec, 1e-5 AU)"
                      % ((name, jde) + tuple(cor) + tuple(carried) + (ang, dist)), [jde, eqx],
                      imp + "print(%s, Sun.rectangular_coordinates_mean_equinox(e))" % call)
        # the library output must be either the corrected recomputation or the one with the known defects
        dev = min(math.sqrt(sum((a - b) ** 2 for a, b in zip(got, alt))) for alt in (cor, self._sun_rect(jde, variant, eqx, True)))
        self.track(key + "-unexpected [AU]", dev)
        if dev > 2.5e-7:
            self.fail(key + "-unexpected", "%s at Epoch(%r) = (%.9f, %.9f, %.9f) is %.2e AU away from both the defect-free recomputation (%.9f, %.9f, %.9f) and the one with the known findings: a new deviation"
                      % ((name, jde) + tuple(got) + (dev,) + tuple(cor)), [jde, eqx], imp + "print(%s)" % call)

    def frames(self, jde, eqx_jde):
        E, S, Ea, A = self.Epoch, self.Sun, self.Earth, self.Angle
        imp = "from pymeeus.Sun import Sun; from pymeeus.Earth import Earth; from pymeeus.Epoch import Epoch; e=Epoch(%r); " % jde

        def run():
            e = E(jde)
            lon, lat, r = S.geometric_geocentric_position(e)
            od = S.rectangular_coordinates_mean_equinox(e)
            self._norm("norm-of-date", "Sun.rectangular_coordinates_mean_equinox", jde, od, r, imp, "Sun.rectangular_coordinates_mean_equinox(e)")
            # of-date rectangular must be the equatorial image of (lon, lat, r) with the mean obliquity
            ra, dec = self.C.ecliptical2equatorial(lon, lat, self.C.mean_obliquity(e))
            w = (r * math.cos(dec.rad()) * math.cos(ra.rad()), r * math.cos(dec.rad()) * math.sin(ra.rad()), r * math.sin(dec.rad()))
            self._cmp_rect("of-date-vs-ecliptical2equatorial", "Sun.rectangular_coordinates_mean_equinox", jde, od, w, r, imp,
                           "Sun.rectangular_coordinates_mean_equinox(e)")
            j = S.rectangular_coordinates_j2000(e)
            self._norm("norm-j2000", "Sun.rectangular_coordinates_j2000", jde, j, r, imp, "Sun.rectangular_coordinates_j2000(e)")
            self._frame_clause("frame-j2000", "Sun.rectangular_coordinates_j2000", jde, j, self._carry(e, E(2451545.0), od), r, imp,
                               "Sun.rectangular_coordinates_j2000(e)", "j2000", None)
            b = S.rectangular_coordinates_b1950(e)
            self._norm("norm-b1950", "Sun.rectangular_coordinates_b1950", jde, b, r, imp, "Sun.rectangular_coordinates_b1950(e)")
            self._frame_clause("frame-b1950", "Sun.rectangular_coordinates_b1950", jde, b, self._carry(e, E(B1950_JDE), od), r, imp,
                               "Sun.rectangular_coordinates_b1950(e)", "b1950", None)
            q = S.rectangular_coordinates_equinox(e, E(eqx_jde))
            call = "Sun.rectangular_coordinates_equinox(e, Epoch(%r))" % eqx_jde
            self._norm("norm-equinox", "Sun.rectangular_coordinates_equinox(., Epoch(%r))" % eqx_jde, jde, q, r, imp, call)
            self._frame_clause("frame-equinox", "Sun.rectangular_coordinates_equinox(., Epoch(%r))" % eqx_jde, jde, q,
                               self._carry(e, E(eqx_jde), od), r, imp, call, "equinox", eqx_jde)
            # Earth, ecliptical: of-date position carried by precession_ecliptical vs the J2000 series
            for flag in (True, False):
                l, bb, rr = Ea.geometric_heliocentric_position(e, flag)
                lj, bj, rj = Ea.geometric_heliocentric_position_j2000(e, flag)
                l2, b2 = self.C.precession_ecliptical(e, E(2451545.0), l, bb)

                def sep(lonA, latA, lonB, latB):
                    return math.hypot(_wrap180(lonA - lonB) * math.cos(math.radians(latB)) * 3600, (latA - latB) * 3600)
                s1 = sep(float(l2), float(b2), float(lj), float(bj))
                self.track("frame-earth-j2000 [arcsec]", s1)
                call = "Earth.geometric_heliocentric_position_j2000(e,%r)" % flag
                if s1 > 2.0 or abs(rr - rj) > 1e-5:
                    k = "frame-earth-j2000" if s1 <= self.ENVELOPE["frame-earth-j2000"][0] and abs(rr - rj) <= 1e-5 else "frame-earth-j2000-gross"
                    self.fail(k, "Earth.geometric_heliocentric_position_j2000(Epoch(%r), %r) = (%.7f, %.7f, %.9f); of-date position carried by precession_ecliptical = (%.7f, %.7f, %.9f): %.2f arcsec apart (allowed 2)"
                              % (jde, flag, float(lj), float(bj), rj, float(l2), float(b2), rr, s1), [jde, flag], imp + "print(%s)" % call)
                cl, cb, cr = self._earth_j2000(jde, False, flag)
                s2 = sep(float(l2), float(b2), cl, cb)
                self.track("frame-earth-j2000-vs-corrected [arcsec]", s2)
                if s2 > 2.0 or abs(rr - cr) > 1e-5:
                    self.fail("frame-earth-j2000-vs-corrected", "J2000 series recomputed from the library's tables without the frequency typo at Epoch(%r), tofk5=%r = (%.7f, %.7f, %.9f); of-date position carried by precession_ecliptical = (%.7f, %.7f, %.9f): %.2f arcsec apart (allowed 2)"
                              % (jde, flag, cl, cb, cr, float(l2), float(b2), rr, s2), [jde, flag],
                              imp + "print(Earth.geometric_heliocentric_position(e,%r), %s)" % (flag, call))
                dl, db_, dr = self._earth_j2000(jde, True, flag)
                s3 = min(sep(float(lj), float(bj), cl, cb), sep(float(lj), float(bj), dl, db_))
                self.track("frame-earth-j2000-unexpected [arcsec]", s3)
                if s3 > 0.01 or abs(rj - cr) > 1e-9:
                    self.fail("frame-earth-j2000-unexpected", "Earth.geometric_heliocentric_position_j2000(Epoch(%r), %r) = (%.7f, %.7f, %.9f) is %.3f arcsec away from both the typo-free recomputation (%.7f, %.7f, %.9f) and the one with the known typo: a new deviation"
                              % (jde, flag, float(lj), float(bj), rj, s3, cl, cb, cr), [jde, flag], imp + "print(%s)" % call)
        self.guard("frames", [jde, eqx_jde], imp + "print(Sun.rectangular_coordinates_j2000(e))", run)

    # -- obliquity / nutation -----------------------------------------------------------------
    def obl_nut(self, jde):
        E, C = self.Epoch, self.C
        imp = "from pymeeus.Coordinates import *; from pymeeus.Moon import Moon; from pymeeus.Epoch import Epoch; e=Epoch(%r); " % jde
        T = (jde - 2451545.0) / 36525.0

        def run():
            e = E(jde)
            e0 = float(C.mean_obliquity(e))
            if abs(T) <= 20.0:
                d = abs(e0 - _iau_obliquity_deg(T)) * 3600
                self.track("mean-obliquity-vs-IAU [arcsec]", d)
                if d > 3.0:
                    self.fail("mean-obliquity-vs-IAU", "mean_obliquity(Epoch(%r)) = %.8f deg, IAU cubic = %.8f deg: %.3f arcsec apart (allowed 3), T = %.4f"
                              % (jde, e0, _iau_obliquity_deg(T), d, T), [jde], imp + "print(float(mean_obliquity(e)))")
            dpsi = float(C.nutation_longitude(e)) * 3600
            deps = float(C.nutation_obliquity(e)) * 3600
            om = self.Moon.longitude_mean_ascending_node(e).rad()
            d1 = abs(dpsi - (-17.20 * math.sin(om)))
            d2 = abs(deps - 9.20 * math.cos(om))
            self.track("nutation-longitude-vs-main-term [arcsec]", d1)
            self.track("nutation-obliquity-vs-main-term [arcsec]", d2)
            if d1 > 3.5:
                self.fail("nutation-longitude-main-term", "nutation_longitude(Epoch(%r)) = %.4f arcsec, main term -17.20 sin(Omega) = %.4f (Omega = %.5f deg): %.3f apart (allowed 3.5)"
                          % (jde, dpsi, -17.20 * math.sin(om), math.degrees(om), d1), [jde],
                          imp + "print(float(nutation_longitude(e))*3600, float(Moon.longitude_mean_ascending_node(e)))")
            if d2 > 1.5:
                self.fail("nutation-obliquity-main-term", "nutation_obliquity(Epoch(%r)) = %.4f arcsec, main term 9.20 cos(Omega) = %.4f (Omega = %.5f deg): %.3f apart (allowed 1.5)"
                          % (jde, deps, 9.20 * math.cos(om), math.degrees(om), d2), [jde],
                          imp + "print(float(nutation_obliquity(e))*3600, float(Moon.longitude_mean_ascending_node(e)))")
            et = float(C.true_obliquity(e))
            if abs(et - (e0 + deps / 3600)) > 1e-10:
                self.fail("true-obliquity-sum", "true_obliquity(Epoch(%r)) = %.12f but mean + nutation = %.12f" % (jde, et, e0 + deps / 3600),
                          [jde], imp + "print(float(true_obliquity(e)), float(mean_obliquity(e))+float(nutation_obliquity(e)))")
        self.guard("obliquity-nutation", [jde], imp + "print(mean_obliquity(e), nutation_longitude(e))", run)

    # -- coarse -------------------------------------------------------------------------------
    def coarse(self, jde):
        E, S, C = self.Epoch, self.Sun, self.C
        imp = "from pymeeus.Sun import Sun; from pymeeus.Epoch import Epoch; e=Epoch(%r); " % jde

        def run():
            e = E(jde)
            lg, bg, rg = S.geometric_geocentric_position(e)
            la, ba, ra = S.apparent_geocentric_position(e)
            tl, r1 = S.true_longitude_coarse(e)
            al, r2 = S.apparent_longitude_coarse(e)
            alpha, delta, r3 = S.apparent_rightascension_declination_coarse(e)
            d = abs(_wrap180(float(tl) - float(lg)))
            self.track("coarse-true-longitude [deg]", d)
            if d > 0.02 or abs(r1 - rg) > 3.5e-4:
                self.fail("coarse-true-longitude", "Sun.true_longitude_coarse(Epoch(%r)) = (%.5f, %.6f), VSOP87 geometric = (%.5f, %.6f): %.4f deg apart (allowed 0.02)"
                          % (jde, float(tl), r1, float(lg), rg, d), [jde], imp + "print(Sun.true_longitude_coarse(e), Sun.geometric_geocentric_position(e))")
            d = abs(_wrap180(float(al) - float(la)))
            self.track("coarse-apparent-longitude [deg]", d)
            if d > 0.02 or abs(r2 - ra) > 3.5e-4:
                self.fail("coarse-apparent-longitude", "Sun.apparent_longitude_coarse(Epoch(%r)) = (%.5f, %.6f), VSOP87 apparent = (%.5f, %.6f): %.4f deg apart (allowed 0.02)"
                          % (jde, float(al), r2, float(la), ra, d), [jde], imp + "print(Sun.apparent_longitude_coarse(e), Sun.apparent_geocentric_position(e))")
            ra_v, dec_v = C.ecliptical2equatorial(la, ba, C.true_obliquity(e))
            # the returned right ascension itself is held to the property's 0.02 degree (literal reading: every angle the
            # coarse formulas return; not scaled by cos(dec) - the Sun never leaves |dec| <= 23.5 deg)
            d1 = abs(_wrap180(float(alpha) - float(ra_v)))
            d2 = abs(float(delta) - float(dec_v))
            self.track("coarse-ra-dec [deg]", max(d1, d2))
            if d1 > 0.02 or d2 > 0.02 or abs(r3 - ra) > 3.5e-4 or not (0.0 <= float(alpha) < 360.0):
                self.fail("coarse-ra-dec", "Sun.apparent_rightascension_declination_coarse(Epoch(%r)) = (%.5f, %.5f, %.6f), VSOP87 apparent place = (%.5f, %.5f, %.6f) (allowed 0.02 deg)"
                          % (jde, float(alpha), float(delta), r3, float(ra_v), float(dec_v), ra), [jde],
                          imp + "print(Sun.apparent_rightascension_declination_coarse(e))")
        self.guard("coarse", [jde], imp + "print(Sun.true_longitude_coarse(e))", run)

    # -- date forms ---------------------------------------------------------------------------
    def forms(self, y, m, d):
        """the obliquity/nutation clauses evaluated with the date given in every documented form
        (Epoch, date, datetime, year-month-day values alone or inside a tuple or list); all forms of
        one calendar day must give the same Angle, and that Angle must satisfy the clauses"""
        C, E = self.C, self.Epoch
        fr = 0.25 * (d % 4)
        imp = "import datetime; from pymeeus.Coordinates import *; from pymeeus.Epoch import Epoch; "
        for fn in (C.mean_obliquity, C.true_obliquity, C.nutation_longitude, C.nutation_obliquity):
            name = fn.__name__

            def run():
                ref = float(fn(E(y, m, d + fr)))
                alts = {"(%d, %d, %r)" % (y, m, d + fr): lambda: fn(y, m, d + fr),
                        "((%d, %d, %r),)" % (y, m, d + fr): lambda: fn((y, m, d + fr)),
                        "([%d, %d, %r],)" % (y, m, d + fr): lambda: fn([y, m, d + fr]),
                        "(Epoch(%d, %d, %r).jde(),)" % (y, m, d + fr): None}
                del alts["(Epoch(%d, %d, %r).jde(),)" % (y, m, d + fr)]
                for txt, th in alts.items():
                    self.n += 1
                    try:
                        v = float(th())
                    except Exception as ex:
                        self.fail("date-form", "%s%s raises %s" % (name, txt, type(ex).__name__), [name, txt], imp + "print(%s%s)" % (name, txt))
                        continue
                    if abs(v - ref) > 1e-12:
                        self.fail("date-form", "%s%s = %r but with Epoch(%d, %d, %r) = %r" % (name, txt, v, y, m, d + fr, ref), [name, txt],
                                  imp + "print(float(%s%s), float(%s(Epoch(%d, %d, %r))))" % (name, txt, name, y, m, d + fr))
                if 1 <= y <= 9999:
                    ref0 = float(fn(E(y, m, d)))
                    for txt, th in (("(datetime.date(%d, %d, %d),)" % (y, m, d), lambda: fn(datetime.date(y, m, d))),
                                    ("(datetime.datetime(%d, %d, %d),)" % (y, m, d), lambda: fn(datetime.datetime(y, m, d)))):
                        self.n += 1
                        v = float(th())
                        if abs(v - ref0) > 1e-12:
                            self.fail("date-form", "%s%s = %r but with Epoch(%d, %d, %d) = %r" % (name, txt, v, y, m, d, ref0), [name, txt],
                                      imp + "print(float(%s%s), float(%s(Epoch(%d, %d, %d))))" % (name, txt, name, y, m, d))
            self.guard("date-form", [name, y, m, d], imp + "print(%s(%d, %d, %d))" % (name, y, m, d), run)
        # the clauses themselves, date given as plain values
        jde = E(y, m, d + fr).jde()
        T = (jde - 2451545.0) / 36525.0

        def clauses():
            e0 = float(C.mean_obliquity(y, m, d + fr))
            if abs(T) <= 20 and abs(e0 - _iau_obliquity_deg(T)) * 3600 > 3.0:
                self.fail("mean-obliquity-vs-IAU", "mean_obliquity(%d, %d, %r) = %.8f deg, IAU cubic %.8f" % (y, m, d + fr, e0, _iau_obliquity_deg(T)),
                          [y, m, d + fr], imp + "print(float(mean_obliquity(%d, %d, %r)))" % (y, m, d + fr))
            de = float(C.nutation_obliquity((y, m, d + fr)))
            et = float(C.true_obliquity([y, m, d + fr]))
            if abs(et - (e0 + de)) > 1e-10:
                self.fail("true-obliquity-sum", "true_obliquity([%d, %d, %r]) = %.12f but mean + nutation = %.12f" % (y, m, d + fr, et, e0 + de),
                          [y, m, d + fr], imp + "print(float(true_obliquity([%d, %d, %r])))" % (y, m, d + fr))
            om = self.Moon.longitude_mean_ascending_node(E(jde)).rad()
            dpsi = float(C.nutation_longitude(y, m, d + fr)) * 3600
            if abs(dpsi + 17.20 * math.sin(om)) > 3.5 or abs(de * 3600 - 9.20 * math.cos(om)) > 1.5:
                self.fail("nutation-main-term-date-form", "nutation_longitude(%d, %d, %r) = %.4f arcsec, nutation_obliquity = %.4f arcsec, Omega = %.4f deg"
                          % (y, m, d + fr, dpsi, de * 3600, math.degrees(om)), [y, m, d + fr], imp + "print(nutation_longitude(%d, %d, %r))" % (y, m, d + fr))
        self.guard("date-form-clauses", [y, m, d], imp + "print(mean_obliquity(%d, %d, %r))" % (y, m, d + fr), clauses)


def _jde_of_year(y):
    return 2451545.0 + (y - 2000.0) * 365.25


def search(rng, tier, deep):
    mods = load(["Angle", "Epoch", "Coordinates", "Earth", "Sun", "Moon"])
    o = Oracle(mods)
    full = deep or tier == "thorough"
    # reflection: -2000..4000
    nr = 200 if full else 30
    for k in range(nr):
        o.reflection(round(_jde_of_year(-2000.0 + 6000.0 * (k + rng.random()) / nr), 3))
    # frames: years 1000..3000, dense and all seasons
    nf = 400 if full else 60
    for k in range(nf):
        y = 1000.0 + 2000.0 * (k + rng.random()) / nf          # stratified: dense in time, random season
        eq = rng.choice([2451545.0 + rng.uniform(-300, 300) * 365.25, _jde_of_year(rng.choice([1700, 1900, 1950, 2050, 2100, 2300]))])
        o.frames(round(_jde_of_year(y), 3), round(eq, 3))
    for y in (1000.0, 3000.0, 2000.0, 1992.7823):
        o.frames(round(_jde_of_year(y), 3), 2467616.0)
    # obliquity / nutation: -2000..4000, dense over the 18.6-year period
    nn = 20000 if full else 3000
    for k in range(nn):
        o.obl_nut(round(_jde_of_year(-2000.0 + 6000.0 * (k + rng.random()) / nn), 4))
    for y in (-2000.0, 0.0, 4000.0, 2000.0):
        for ph in range(40):
            o.obl_nut(round(_jde_of_year(y) + ph * 170.0 * (1 if y < 3000 else -1), 3))
    # coarse: 1800..2200
    ncs = 1500 if full else 150
    for k in range(ncs):
        o.coarse(round(_jde_of_year(1800.0 + 400.0 * (k + rng.random()) / ncs), 3))
    # both ends of the window, every season: an error that grows with |t| (a mistyped secular coefficient) crosses
    # the 0.02 degree first at the window's edges and, in right ascension, near the solstices (d alpha / d lambda = 1.09)
    nedge = 0
    for y0 in (1800.0, 2197.0):
        j0 = _jde_of_year(y0)
        for d in range(0, 3 * 365, 1 if full else 3):
            jj = round(j0 + d + 0.5 * rng.random(), 3)
            if _jde_of_year(1800.0) <= jj <= _jde_of_year(2200.0):
                o.coarse(jj); nedge += 1
    # date forms
    for _ in range(40 if full else 8):
        y = rng.choice([rng.randint(-2000, 4000), rng.randint(1900, 2100)])
        o.forms(y, rng.randint(1, 12), rng.randint(1, 28))
    stats = {"evaluations": o.n, "distinct_nontrivial": o.nontriv,
             "rule": "stratified-random epochs: %d frame cases in 1000..3000 (J2000, B1950, random equinox +-3 centuries; each vs precession_equatorial/ecliptical, 2 arcsec / 1e-5 AU, and norm = r), "
                     "%d reflection cases and %d obliquity/nutation cases in -2000..4000, %d coarse-vs-VSOP87 cases in 1800..2200 + %d at 1-3 day steps through the first and last three years of that window, date forms; non-trivial = cases evaluated without exception"
                     % (nf + 4, nr, nn + 160, ncs, nedge),
             "worst_seen": {k: float("%.4g" % v) for k, v in sorted(o.worst.items())},
             "samples": [{"input": "Epoch(2448908.5)", "checked": "Sun geometric = Earth reflected; rectangular J2000/B1950/equinox vs of-date carried by precession_equatorial"},
                         {"input": "Epoch(1987, 4, 10)", "checked": "|mean obliquity - IAU cubic| <= 3 arcsec; nutation vs -17.20 sin / 9.20 cos of Moon's node; true = mean + nutation"}],
             "exhaustive_search": False}
    return o.findings, stats
