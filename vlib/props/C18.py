"""C18 — Earth ellipsoid quantities and surface distance satisfy their identities."""
import math
from vlib import common as K
from vlib.impl import load

ID = "C18"
MODULES = K.mods("base", "Angle", "Epoch", "Interpolation", "Coordinates", "Earth")
REQUIRED = ["Ellipsoid.__init__", "Ellipsoid.b", "Ellipsoid.e", "Earth.__init__", "Earth.set",
            "Earth.rho", "Earth.rho_sinphi", "Earth.rho_cosphi", "Earth.rp", "Earth.linear_velocity",
            "Earth.rm", "Earth.distance", "Earth.parallax_correction", "Earth.parallax_ecliptical"]
THEOREMS = ["C18_builtin", "C18_earth_object", "C18_set_ellipsoid", "C18_on_ellipse", "C18_height", "C18_parallel_radius",
            "C18_linear_velocity", "C18_rm_equator", "C18_rm_pole", "C18_rm_monotone",
            "C18_distance_symmetric", "C18_distance_symmetric_angle", "C18_distance_coincident",
            "C18_distance_equator", "C18_distance_value", "C18_parallax_correction_closed_form",
            "C18_parallax_declination_bound", "C18_central_angle", "C18_distance_great_circle",
            "C18_distance_great_circle_angle", "C18_builtin_flattening", "C18_parallax_displacement_bound", "C18_rho_bound",
            "C18_parallax_dalpha_tan", "C18_parallax_range", "C18_andoyer_meridian_first_order", "C18_distance_meridian_arc",
            "C18_distance_meridian_arc_angle"]
PROOF_TIMEOUT = {"quick": 1500, "thorough": 3000}
EXHAUSTIVE = False
MANIFEST = {
    "category": "proof",
    "text": "T4 (ideal real-number instance of the regenerated model): Ellipsoid.b/e, Earth.set/rho_sinphi/rho_cosphi/rp/"
            "linear_velocity/rm/distance/parallax_correction are shown to compute hand-written real functions (bridging lemmas "
            "by symbolic evaluation of the generated text); about these the identities are proved for every ellipsoid a>0, 0<=f<1 "
            "(IAU76/WGS84 as corollaries) and latitude given as float, int or Angle: meridian ellipse + geocentric direction and "
            "height term for cos(phi) != 0 (POLES EXCLUDED in the real-number instance: the code goes through tan(phi)); rp = a rho cos phi' "
            "for |phi| < 90 deg; rm = b^2/a at the equator, a^2/b at +-90 deg, monotone in |phi| (poles included, no tan); v = omega rp; "
            "distance (four floats or four Angles) symmetric / (0,0) for coincident points / a|dlambda| on the equator; closed forms of "
            "Earth.distance and Earth.parallax_correction (transcriptions that pin the code); |sin dec' - sin dec| <= 2q/(1-q), "
            "q = rho sin(8.794'')/distance (vanishes with 1/distance; about twice the horizontal parallax, weaker than the property's bound). "
            "Great circle: a sigma (1-2f) <= distance <= a sigma (1+f) for every non-coincident, non-antipodal pair (sigma = central angle, haversine), "
            "hence within 0.6 % of the great circle of mean radius (2a+b)/3 for f <= 0.00359 (IAU76, WGS84). Parallax_correction: angle between geocentric "
            "and returned direction <= asin(rho sin(8.794'')/distance) <= asin(C/distance), C = (1+|h|/a) sin(8.794''), for distance > C (rho <= 1+|h|/a proved). "
            "Binary64 incl. the poles: bit-exact correspondence model vs implementation every run + oracle. "
            "Parallax_ecliptical: closed form + the same displacement bound as thorough-tier obligations (C18_thorough.v). "
            "Meridian arc: |RInt rm - distance| <= 2 f^2 a dphi for f <= 0.01 and <= 1e-4 of the arc for f <= 0.007 (Coquelicot RInt; Andoyer = integral of the first-order expansion of rm). "
            "Searched, not proved: exactly antipodal pairs, meridian clause at 1e-4 for 0.007 < f <= 0.01, all rounding.",
    "technique": "symbolic evaluation (pyrun) of the generated model over Coq reals + real analysis (lra/nra/field, "
                 "Reals trigonometry: cos_atan, atan_tan, sin/cos monotonicity, Rpower; Coquelicot RInt/auto_derive; Coq-Interval; Lagrange/Cauchy-Schwarz vector identities) + bit-exact differential "
                 "correspondence + oracle search with independent closed forms, Simpson integration and vector parallax",
    "design_ref": "8/C18",
}
EXPLANATION = ("The model of pymeeus.Earth regenerated from /repo is instantiated over Coq's real numbers; bridging lemmas "
               "(C18_bridge/_rp/_lv/_rm/_dist_f/_dist_a/_par.v, symbolic evaluation of the generated text) show that each method computes a "
               "hand-written real function of C18_spec.v / C18_par.v, where the identities of the property are proved for all ellipsoids "
               "with a > 0, 0 <= f < 1 and all latitudes where the code's tan(phi) is defined (cos phi != 0; rm, rp/linear velocity and the "
               "distance theorems need no such restriction). Earth.distance and Earth.parallax_correction are additionally pinned to closed "
               "forms (transcriptions). Rounding is not covered by the theorems: the binary64 behaviour, exact poles included, is tied to the "
               "same model text by the bit-exact correspondence stage and all clauses are searched on the implementation with the "
               "property's tolerances, with independent closed forms, Simpson integration and a vector computation of the parallax.")
CLAUSES = {
    "sea-level point on the meridian ellipse (rho cos phi')^2 + (rho sin phi' a/b)^2 = 1, x > 0, tan phi' = (b/a)^2 tan phi (latitudes with cos phi != 0, float/int/Angle, every a>0, 0<=f<1)":
        "proved [ideal, C18_on_ellipse; POLES EXCLUDED: the code uses tan(phi), which the real-number instance does not define at +-90 deg]; exact poles searched in binary64 (1e-12) + correspondence",
    "parallel radius rp = a * rho cos phi' for |phi| < 90 deg": "proved [ideal, C18_parallel_radius]; searched (1e-12 rel)",
    "meridian radius of curvature: b^2/a at the equator, a^2/b at the poles, monotone in |phi| (poles included: rm uses sin only)":
        "proved [ideal, C18_rm_equator, C18_rm_pole, C18_rm_monotone]; searched",
    "linear speed = angular velocity * parallel radius": "proved [ideal, C18_linear_velocity]; searched",
    "height adds h/a (cos phi, sin phi) (cos phi != 0)": "proved [ideal, C18_height; poles excluded as in C18_on_ellipse]; exact poles searched",
    "Earth.set(E) gives exactly the object Earth(E) (no state besides the ellipsoid)": "proved [ideal, C18_set_ellipsoid]; searched with call sequences (set after use, two objects alive), key set-ellipsoid-identities",
    "built-in ellipsoids IAU76 / WGS84 have the documented constants and are covered": "proved [ideal, C18_builtin]; searched",
    "distance symmetric for all point pairs (four float or four Angle arguments)":
        "proved [ideal, C18_distance_symmetric(_angle); exactly antipodal pairs (c = 0) raise ZeroDivisionError in both orders in the real-number instance; in binary64 c is never 0 there — searched]",
    "distance zero for coincident points": "proved [ideal, C18_distance_coincident]; searched (exact 0.0)",
    "distance along the equator = (a |delta lambda|, round(a |delta lambda| f^2)) for 0 < |delta lambda| < 180 deg": "proved [ideal, C18_distance_equator, explicit value]; searched (1e-12 rel)",
    "distance closed form (pins the code): (0,0) if s = 0, ZeroDivisionError if c = 0, else Andoyer's formula with round(dist f^2, 0), every float input":
        "proved [ideal, C18_distance_value; the spec `andoyer` is a transcription of the code: it pins the code against change and carries the symmetry/coincident/equator theorems, it is no property by itself]",
    "distance along a meridian = integral of rm (1e-4)":
        "proved [ideal, C18_distance_meridian_arc(_angle) + C18_andoyer_meridian_first_order; Coquelicot RInt of mer_radius = the function Earth.rm computes (rm_ok): for one meridian, latitudes p1 < p2 < p1 + 180 deg, a > 0, 0 <= f <= 0.01: the integral exists and |arc - D| <= 2 f^2 a (phi2 - phi1); for f <= 0.007 (IAU76, WGS84; user ellipsoids up to 0.007) |arc - D| <= 1e-4 arc. Mechanism: Andoyer as coded is EXACTLY the integral of the first-order expansion a(1 - 2f + 3f sin^2 phi), and |rm - expansion| <= 2 f^2 a pointwise (polynomial factorisations + interval). NOT TRUE for the whole user range: Andoyer's formula is first order in f and the literal 1e-4 is exceeded for f above about 0.0099 (Earth(Ellipsoid(6378137.0, 0.01, w)).distance(0.0, 0.0, 0.0, 0.5) = 54546.593 m, integral of rm = 54552.158 m, relative 1.02e-4): the oracle holds every ellipsoid to the literal 1e-4; the excess for 0.0098 < f <= 0.01 (<= 1.2e-4) is the known finding distance-meridian-arc-first-order-f-near-0.01. Not proved: p2 - p1 = 180 deg exactly (antipodal through the poles), binary64 rounding]",
    "distance within 0.6 % of the great-circle distance":
        "proved [ideal, C18_distance_great_circle(_angle) + C18_central_angle + C18_builtin_flattening: for every pair that is neither coincident nor exactly antipodal (s > 0, c > 0) and every a > 0, f >= 0: a sigma (1-2f) <= D <= a sigma (1+f), sigma = central angle (haversine formula proved); for f <= 0.00359 (IAU76, WGS84) |D - R sigma| <= 0.006 R sigma with the mean radius R = (2a+b)/3. With R = a the clause is false (2f = 0.67 % along a meridian at the equator). Exactly antipodal pairs and binary64 rounding: searched]",
    "parallax_correction closed form (after repairs 5494b49/2d034b9): delta_alpha = atan2(B, A), dec' = atan2(sin d - rho_sin k, hypot(A, B)), WGS84 observer":
        "proved [ideal, C18_parallax_correction_closed_form; closed form (pins the code): a transcription of the repaired code, no property by itself; Angle arguments, float distance != 0 and height, observer latitude with cos != 0; the final right_ascension + delta_alpha is left as the model's Angle.__add__]",
    "parallax correction in declination tends to 0 as distance grows: |sin dec' - sin dec| <= 2q/(1-q), q = rho sin(8.794'')/distance":
        "proved [spec function topo_dec, tied to the code by C18_parallax_correction_closed_form; every declination of the body and hour angle; 2q/(1-q) is about TWICE the horizontal parallax: weaker than the property's bound, it only shows the 1/distance decay]",
    "parallax corrections never displace by more than the horizontal parallax asin(sin 8.794''/distance) and tend to 0 with distance":
        "proved for the observer's own parallax [ideal, C18_parallax_displacement_bound (parallax_correction, quick) / T18_parallax_ecliptical_displacement_bound (thorough), tied to the code by the closed forms; measure: angle theta between the geocentric direction and the returned direction; for distance > C = (1+|h|/a) sin 8.794'' (C <= 4.3e-5 AU on the whole range: C18_parallax_range): sin theta <= rho sin(8.794'')/distance <= C/distance, cos theta > 0, rho <= 1+|h|/a the observer's geocentric distance (C18_rho_bound)]. The LITERAL bound asin(sin 8.794''/distance) is what the oracle applies: it follows from the theorem for rho <= 1 (every observer at or below the reference ellipsoid, h <= 0) and is exceeded, by at most the factor rho <= 1 + h/a <= 1.0015, by an observer above the ellipsoid near the equator - that geometric excess is the known finding parallax-exceeds-horizontal-parallax-elevated-observer (envelope: h > 0, rho > 1, displacement <= asin(rho sin 8.794''/distance) with the observer's own rho); anything beyond it is reported as parallax-correction-exceeds-horizontal / parallax-ecliptical-exceeds-horizontal; tan(delta_alpha) in Meeus' form: C18_parallax_dalpha_tan",
    "parallax_ecliptical: closed form, returned latitude = latitude of the topocentric vector, displacement <= horizontal parallax, -> 0 with distance":
        "proved [ideal, THOROUGH-TIER obligations T18_parallax_ecliptical_closed_form (pins the code: transcription, all three branches of the latitude folding; hypotheses n != 0, asin argument in [-1,1], distance != 0), T18_ecliptical_latitude (folded atan2(cos lon' Z, n) = atan2(Z, hypot(n, Y))), T18_parallax_ecliptical_displacement_bound (same measure and constants as for parallax_correction: sin theta <= rho sin(8.794'')/distance <= C/distance, cos theta > 0, for n != 0 and distance > C), T18_ecliptical_semidiameter (asin argument = sin(semidiameter)/|w|) and T18_ecliptical_topocentric_distance ((1-q)^2 <= |w|^2 <= (1+q)^2)]; quick tier: searched (independent vector computation 1e-9 rad, bound, semidiameter)",
    "binary64 rounding of all of the above": "unproved (searched); correspondence stage ties binary64 runs to the model text bit for bit",
}


def proof_files(tier):
    fs = ["C18_tac.v", "C18_spec.v", "C18_defs.v", "C18_bridge.v", "C18_rp.v", "C18_lv.v", "C18_rm.v",
          "C18_dist_f.v", "C18_dist_a.v", "C18_dist.v", "C18_main.v", "C18_par.v", "C18_parbound.v", "C18_gc.v", "C18_gcm.v",
          "C18_parvec.v", "C18_parm.v", "C18_mer.v", "C18_merint.v", "C18_merm.v"]
    if tier == "thorough":
        # extra obligations (not in THEOREMS, which is the same in both tiers): Earth.parallax_ecliptical closed form
        # (three branches, ~4 min of symbolic evaluation each, compiled in parallel) and its displacement bound;
        # a failure breaks stage P
        fs += ["C18_pecl.v", "C18_pecl_mid.v", "C18_pecl_hi.v", "C18_pecl_lo.v", "C18_pecl_all.v", "C18_vec.v",
               "C18_peclm.v", "C18_thorough.v"]
    return fs + ["C18.v"]


# ----------------------------------------------------------------------------- generators
LATS = [-90.0, -89.999999, -89.0, -60.0, -45.0, -33.356111, -1e-9, 0.0, 1e-9, 30.0, 42.0, 45.0, 89.5,
        89.999999, 90.0]
HEIGHTS = [-500.0, 0.0, 1.0, 1706.0, 9000.0]


def clamp_lat(x):
    return max(-90.0, min(90.0, x))


def gen_lat(rng):
    r = rng.random()
    if r < 0.4: return rng.choice(LATS)
    if r < 0.5: return clamp_lat(math.nextafter(rng.choice([-90.0, 0.0, 90.0]), rng.choice([-100.0, 100.0])))
    return rng.uniform(-90.0, 90.0)


def gen_height(rng):
    return rng.choice(HEIGHTS) if rng.random() < 0.4 else rng.uniform(-500.0, 9000.0)


def gen_ell_expr(rng):
    r = rng.random()
    if r < 0.3: return "IAU76"
    if r < 0.6: return "WGS84"
    f = rng.choice([0.0, 1e-6, 1.0 / 298.257, 0.005, 0.01]) if rng.random() < 0.5 else rng.uniform(0.0, 0.01)
    a = rng.choice([6378140.0, 6378137.0, 1.0, 6.0e6]) if rng.random() < 0.5 else rng.uniform(1e6, 1e7)
    return "Ellipsoid(%r, %r, %r)" % (a, f, rng.choice([7.292114992e-5, 7292115e-11, 1e-4]))


def lat_expr(rng, x):
    r = rng.random()
    if r < 0.55: return repr(x)
    if r < 0.9: return "Angle(%r)" % x
    return repr(int(x))


def gen_pair(rng):
    """(lon1, lat1, lon2, lat2) aimed at the degenerate configurations"""
    k = rng.randrange(9)
    lon1, lat1 = rng.uniform(-180, 180), clamp_lat(gen_lat(rng))
    if k == 0: return (lon1, lat1, lon1, lat1)                                   # coincident
    if k == 1: return (lon1, lat1, lon1 + 1e-12, lat1)                           # nearly coincident
    if k == 2:                                                                   # antipodal
        lon2 = lon1 + 180.0 if lon1 <= 0 else lon1 - 180.0
        return (lon1, lat1, lon2, -lat1)
    if k == 3: return (lon1, lat1, lon1, clamp_lat(gen_lat(rng)))                # same meridian
    if k == 4: return (lon1, 0.0, rng.uniform(-180, 180), 0.0)                   # equatorial
    if k == 5: return (lon1, 90.0, rng.uniform(-180, 180), -90.0)                # pole to pole
    if k == 6:                                                                   # nearly antipodal
        lon2 = lon1 + 180.0 if lon1 <= 0 else lon1 - 180.0
        return (lon1, lat1, lon2 + rng.uniform(-0.5, 0.5), clamp_lat(-lat1 + rng.uniform(-0.5, 0.5)))
    return (lon1, lat1, rng.uniform(-180, 180), clamp_lat(gen_lat(rng)))


def cases(rng, tier):
    n = 40 if tier == "quick" else 400
    cs = []
    for _ in range(n):
        E = "Earth(%s)" % gen_ell_expr(rng) if rng.random() < 0.8 else "Earth()"
        la = lat_expr(rng, gen_lat(rng))
        h = gen_height(rng)
        hs = repr(h) if rng.random() < 0.8 else repr(int(h))
        cs += ["%s.rho(%s)" % (E, la), "%s.rho_sinphi(%s, %s)" % (E, la, hs), "%s.rho_cosphi(%s, %s)" % (E, la, hs),
               "%s.rp(%s)" % (E, la), "%s.linear_velocity(%s)" % (E, la), "%s.rm(%s)" % (E, la)]
        p = gen_pair(rng)
        if rng.random() < 0.6: cs.append("%s.distance(%r, %r, %r, %r)" % ((E,) + p))
        else: cs.append("%s.distance(Angle(%r), Angle(%r), Angle(%r), Angle(%r))" % ((E,) + p))
        el = gen_ell_expr(rng)
        cs += ["%s.b()" % el, "%s.e()" % el]
        d = 10.0 ** rng.uniform(-3, 3)
        args = (rng.uniform(0, 360), rng.uniform(-90, 90), gen_lat(rng), d, rng.uniform(0, 360), gen_height(rng))
        cs.append("Earth.parallax_correction(Angle(%r), Angle(%r), Angle(%r), %r, Angle(%r), %r)" % args)
        args = (rng.uniform(0, 360), rng.uniform(-89, 89), rng.uniform(0, 0.3), gen_lat(rng), rng.uniform(22, 24.5),
                rng.uniform(0, 360), d, gen_height(rng))
        cs.append("Earth.parallax_ecliptical(Angle(%r), Angle(%r), Angle(%r), Angle(%r), Angle(%r), Angle(%r), %r, %r)" % args)
    cs += ["IAU76.b()", "WGS84.b()", "IAU76.e()", "WGS84.e()", "Earth().rho('a')", "Earth().rho_sinphi(42.0, 'x')",
           "Earth().rp(None)", "Earth().rm('1')", "Earth().linear_velocity([1])", "Earth(3)",
           "Earth().distance(0.0, 0.0, 0.0, 0.0)", "Earth().distance(0.0, 0.0, 180.0, 0.0)",
           "Earth().distance(0.0, 90.0, 0.0, -90.0)", "Earth().distance(10.0, 30.0, -170.0, -30.0)",
           "Earth(IAU76).distance(Angle(-2, 20, 14.0), Angle(48, 50, 11.0), Angle(77, 3, 56.0), Angle(38, 55, 17.0))",
           "Earth().distance(0, 0, 1, 'a')", "Earth(IAU76).rho(0)", "Earth(IAU76).rm(90)", "Earth(IAU76).rm(-90)",
           "Earth(IAU76).rp(42)", "Earth(IAU76).linear_velocity(Angle(42.0))",
           "Earth.parallax_correction(Angle(22, 38, 7.25, ra=True), Angle(-15, 46, 15.9), Angle(33, 21, 22), 0.37276, Angle(288.7958), 0.0)",
           "Earth.parallax_correction(Angle(10.0), Angle(5.0), Angle(33.0), 1, Angle(20.0), 0.0)",
           "Earth.parallax_ecliptical(Angle(181, 46, 22.5), Angle(2, 17, 26.2), Angle(0, 16, 15.5), Angle(50, 5, 7.8), Angle(23, 28, 0.8), Angle(209, 46, 7.9), 0.0024650163, 0.0)",
           "Earth.parallax_ecliptical(Angle(10.0), Angle(-5.0), Angle(0, 16, 15.5), Angle(50, 5, 7.8), Angle(23, 28, 0.8), Angle(209, 46, 7.9), 0.0024650163, 0.0)"]
    return cs


# ----------------------------------------------------------------------------- oracle
SIN_PI0 = math.sin(math.radians(8.794 / 3600.0))
BUILTIN = {"IAU76": (6378140.0, 1.0 / 298.257, 7.292114992e-5), "WGS84": (6378137.0, 1.0 / 298.257223563, 7292115e-11)}


def geocentric(a, f, lat_deg, h):
    """independent closed form: geodetic (lat, h) -> (rho cos phi', rho sin phi') in equatorial radii"""
    phi = math.radians(lat_deg)
    e2 = f * (2.0 - f)
    N = a / math.sqrt(1.0 - e2 * math.sin(phi) ** 2)
    return (N + h) * math.cos(phi) / a, (N * (1.0 - e2) + h) * math.sin(phi) / a


def unit(lon, lat):
    return (math.cos(lat) * math.cos(lon), math.cos(lat) * math.sin(lon), math.sin(lat))


def sep(u, v):
    cx = (u[1] * v[2] - u[2] * v[1], u[2] * v[0] - u[0] * v[2], u[0] * v[1] - u[1] * v[0])
    return math.atan2(math.sqrt(cx[0] ** 2 + cx[1] ** 2 + cx[2] ** 2), u[0] * v[0] + u[1] * v[1] + u[2] * v[2])


def simpson(fn, x0, x1, n):
    hh = (x1 - x0) / n
    s = fn(x0) + fn(x1)
    for i in range(1, n):
        s += (4.0 if i % 2 else 2.0) * fn(x0 + i * hh)
    return s * hh / 3.0


class Oracle:
    def __init__(self, mods):
        self.Em, self.Am = mods["Earth"], mods["Angle"]
        self.Earth, self.Ellipsoid, self.Angle = self.Em.Earth, self.Em.Ellipsoid, self.Am.Angle
        self.findings, self.n, self.nontriv = [], 0, 0
        self.seen = set()

    def add(self, key, what, inp, code):
        if (key in self.seen) and len(self.findings) > 40: return
        self.seen.add(key)
        self.findings.append({"key": key, "what": what, "input": inp,
                              "replay": "PYTHONPATH=/repo /venv/bin/python -c \"from pymeeus.Earth import *; from pymeeus.Angle import Angle; %s\"" % code})

    def call(self, key, code, fn):
        self.n += 1
        try:
            return fn()
        except Exception as ex:
            self.add(key + "-raises", "%s raises %s: %s" % (code, type(ex).__name__, ex), code, "print(%s)" % code)
            return None

    # -- ellipsoid and point quantities
    def check_point(self, ellx, a, f, om, lat, h, as_angle):
        Earth, Angle = self.Earth, self.Angle
        ell = self.Ellipsoid(a, f, om) if ellx is None else getattr(self.Em, ellx)
        es = ("Ellipsoid(%r, %r, %r)" % (a, f, om)) if ellx is None else ellx
        e = Earth(ell)
        la = Angle(lat) if as_angle else lat
        ls = ("Angle(%r)" % lat) if as_angle else repr(lat)
        E = "Earth(%s)" % es
        b = self.call("ellipsoid-b", "%s.b()" % es, lambda: ell.b())
        ec = self.call("ellipsoid-e", "%s.e()" % es, lambda: ell.e())
        if b is None or ec is None: return
        if abs(b - a * (1.0 - f)) > 1e-15 * a:
            self.add("ellipsoid-b", "%s.b() = %r, a(1-f) = %r" % (es, b, a * (1 - f)), es, "print(%s.b())" % es)
        if abs(ec - math.sqrt(f * (2.0 - f))) > 1e-15:
            self.add("ellipsoid-e", "%s.e() = %r, sqrt(2f-f^2) = %r" % (es, ec, math.sqrt(f * (2 - f))), es, "print(%s.e())" % es)
        x0 = self.call("rho-cosphi", "%s.rho_cosphi(%s, 0.0)" % (E, ls), lambda: e.rho_cosphi(la, 0.0))
        y0 = self.call("rho-sinphi", "%s.rho_sinphi(%s, 0.0)" % (E, ls), lambda: e.rho_sinphi(la, 0.0))
        xh = self.call("rho-cosphi", "%s.rho_cosphi(%s, %r)" % (E, ls, h), lambda: e.rho_cosphi(la, h))
        yh = self.call("rho-sinphi", "%s.rho_sinphi(%s, %r)" % (E, ls, h), lambda: e.rho_sinphi(la, h))
        rp = self.call("rp", "%s.rp(%s)" % (E, ls), lambda: e.rp(la))
        lv = self.call("linear-velocity", "%s.linear_velocity(%s)" % (E, ls), lambda: e.linear_velocity(la))
        rm = self.call("rm", "%s.rm(%s)" % (E, ls), lambda: e.rm(la))
        if None in (x0, y0, xh, yh, rp, lv, rm): return
        self.nontriv += 1
        code = "e=Earth(%s); la=%s; print(e.rho_cosphi(la,0.0), e.rho_sinphi(la,0.0), e.rho_cosphi(la,%r), e.rho_sinphi(la,%r), e.rp(la), e.linear_velocity(la), e.rm(la))" % (es, ls, h, h)
        inp = {"ellipsoid": es, "latitude": lat, "height": h, "as_angle": as_angle}
        # meridian ellipse at sea level
        if f < 1.0:
            v = x0 * x0 + (y0 * a / b) ** 2
            if not abs(v - 1.0) <= 1e-12:
                self.add("on-ellipse", "%s lat %r: (rho cos)^2 + (rho sin a/b)^2 = %r, not 1" % (es, lat, v), inp, code)
        # independent closed form (geodetic -> geocentric)
        gx0, gy0 = geocentric(a, f, lat, 0.0)
        gxh, gyh = geocentric(a, f, lat, h)
        for (nm, got, want) in (("rho-cosphi", x0, gx0), ("rho-sinphi", y0, gy0), ("rho-cosphi", xh, gxh), ("rho-sinphi", yh, gyh)):
            if not abs(got - want) <= 1e-12 * max(1.0, abs(want)):
                self.add(nm + "-closed-form", "%s lat %r h %r: %s = %r, closed form %r" % (es, lat, h, nm, got, want), inp, code)
        # height term
        phi = math.radians(lat)
        if not abs((xh - x0) - h / a * math.cos(phi)) <= 1e-14 * max(1.0, abs(h / a)):
            self.add("height-term-cos", "%s lat %r: rho_cosphi(h=%r) - rho_cosphi(0) = %r, h/a cos = %r" % (es, lat, h, xh - x0, h / a * math.cos(phi)), inp, code)
        if not abs((yh - y0) - h / a * math.sin(phi)) <= 1e-14 * max(1.0, abs(h / a)):
            self.add("height-term-sin", "%s lat %r: rho_sinphi(h=%r) - rho_sinphi(0) = %r, h/a sin = %r" % (es, lat, h, yh - y0, h / a * math.sin(phi)), inp, code)
        # parallel radius: two formulas
        if not abs(rp - a * x0) <= 1e-12 * a:
            self.add("rp-vs-rho-cosphi", "%s lat %r: rp = %r, a rho cos phi' = %r" % (es, lat, rp, a * x0), inp, code)
        # linear velocity
        if not abs(lv - om * rp) <= 1e-15 * abs(om * rp) + 1e-300:
            self.add("linear-velocity", "%s lat %r: linear_velocity = %r, omega rp = %r" % (es, lat, lv, om * rp), inp, code)
        # meridian radius of curvature between b^2/a and a^2/b, closed form
        lo, hi = b * b / a, a * a / b
        if not (lo * (1 - 1e-12) <= rm <= hi * (1 + 1e-12)):
            self.add("rm-range", "%s lat %r: rm = %r outside [b^2/a, a^2/b] = [%r, %r]" % (es, lat, rm, lo, hi), inp, code)
        e2 = f * (2.0 - f)
        want = a * (1 - e2) / (1 - e2 * math.sin(phi) ** 2) ** 1.5
        if not abs(rm - want) <= 1e-12 * a:
            self.add("rm-closed-form", "%s lat %r: rm = %r, a(1-e^2)/(1-e^2 sin^2)^1.5 = %r" % (es, lat, rm, want), inp, code)

    def check_rm_profile(self, ellx, a, f, om, rng):
        ell = self.Ellipsoid(a, f, om) if ellx is None else getattr(self.Em, ellx)
        es = ("Ellipsoid(%r, %r, %r)" % (a, f, om)) if ellx is None else ellx
        e = self.Earth(ell)
        b = a * (1.0 - f)
        r0 = self.call("rm", "Earth(%s).rm(0.0)" % es, lambda: e.rm(0.0))
        rn = self.call("rm", "Earth(%s).rm(90.0)" % es, lambda: e.rm(90.0))
        rs = self.call("rm", "Earth(%s).rm(Angle(-90.0))" % es, lambda: e.rm(self.Angle(-90.0)))
        if None in (r0, rn, rs): return
        code = "e=Earth(%s); print(e.rm(0.0), e.rm(90.0), e.rm(Angle(-90.0)))" % es
        if not abs(r0 - b * b / a) <= 1e-12 * a:
            self.add("rm-equator", "%s: rm(0) = %r, b^2/a = %r" % (es, r0, b * b / a), es, code)
        for r in (rn, rs):
            if not abs(r - a * a / b) <= 1e-12 * a:
                self.add("rm-pole", "%s: rm(+-90) = %r, a^2/b = %r" % (es, r, a * a / b), es, code)
        xs = sorted([0.0, 90.0] + [rng.uniform(0, 90) for _ in range(30)])
        prev, px = None, None
        for x in xs:
            sgn = rng.choice([-1.0, 1.0])
            r = self.call("rm", "Earth(%s).rm(%r)" % (es, sgn * x), lambda: e.rm(sgn * x))
            if r is None: return
            if prev is not None and r < prev * (1 - 1e-13):
                self.add("rm-monotone", "%s: rm(|%r|) = %r > rm(|%r|) = %r" % (es, px, prev, x, r), [es, px, x],
                         "e=Earth(%s); print(e.rm(%r), e.rm(%r))" % (es, px, sgn * x))
            prev, px = r, x
        self.nontriv += 1

    def check_constants(self):
        for nm, (a, f, om) in BUILTIN.items():
            self.n += 1
            ell = getattr(self.Em, nm)
            if (ell._a, ell._f, ell._omega) != (a, f, om):
                self.add("builtin-" + nm, "%s = (%r, %r, %r), documented (%r, %r, %r)" % (nm, ell._a, ell._f, ell._omega, a, f, om),
                         nm, "print(%s._a, %s._f, %s._omega)" % (nm, nm, nm))
        self.n += 1
        if self.Earth()._ellip is not self.Em.WGS84:
            self.add("default-ellipsoid", "Earth() does not use WGS84", "Earth()", "print(Earth()._ellip is WGS84)")

    def check_rho(self, lat):
        """Earth.rho: sea-level distance to the centre (series with IAU76 coefficients) vs closed form"""
        e = self.Earth(self.Em.IAU76)
        r = self.call("rho", "Earth(IAU76).rho(%r)" % lat, lambda: e.rho(lat))
        r2 = self.call("rho", "Earth(IAU76).rho(Angle(%r))" % lat, lambda: e.rho(self.Angle(lat)))
        if r is None or r2 is None: return
        x, y = geocentric(BUILTIN["IAU76"][0], BUILTIN["IAU76"][1], lat, 0.0)
        want = math.hypot(x, y)
        if not abs(r - want) <= 2e-7 or not abs(r2 - r) <= 1e-15:
            self.add("rho-sea-level", "rho(%r) = %r (Angle: %r), sqrt((rho cos)^2+(rho sin)^2) on IAU76 = %r" % (lat, r, r2, want), lat,
                     "e=Earth(IAU76); print(e.rho(%r), e.rho(Angle(%r)))" % (lat, lat))


    # -- multi-step probes: Earth.set / construction / independent objects
    def identities_on(self, e, a, f, om, lat):
        """all identity clauses on one live Earth object; returns a description of the first failure or None"""
        b = a * (1.0 - f)
        x0, y0 = e.rho_cosphi(lat, 0.0), e.rho_sinphi(lat, 0.0)
        if not abs(x0 * x0 + (y0 * a / b) ** 2 - 1.0) <= 1e-12:
            return "on-ellipse: x^2+(y a/b)^2 = %r" % (x0 * x0 + (y0 * a / b) ** 2)
        gx, gy = geocentric(a, f, lat, 0.0)
        if not (abs(x0 - gx) <= 1e-12 and abs(y0 - gy) <= 1e-12):
            return "rho_cosphi/rho_sinphi = (%r, %r), closed form on (a, f) = (%r, %r)" % (x0, y0, gx, gy)
        rp = e.rp(lat)
        if not abs(rp - a * x0) <= 1e-12 * a:
            return "rp = %r, a rho cos phi' = %r" % (rp, a * x0)
        lv = e.linear_velocity(lat)
        if not abs(lv - om * rp) <= 1e-15 * abs(om * rp) + 1e-300:
            return "linear_velocity = %r, omega rp = %r" % (lv, om * rp)
        r0, r9, rl = e.rm(0.0), e.rm(90.0), e.rm(lat)
        if not abs(r0 - b * b / a) <= 1e-12 * a:
            return "rm(0) = %r, b^2/a = %r" % (r0, b * b / a)
        if not abs(r9 - a * a / b) <= 1e-12 * a:
            return "rm(90) = %r, a^2/b = %r" % (r9, a * a / b)
        if not (r0 * (1 - 1e-12) <= rl <= r9 * (1 + 1e-12)):
            return "rm(%r) = %r outside [rm(0), rm(90)]" % (lat, rl)
        if 0.0 < abs(lat) < 90.0:
            d = e.distance(10.0, 0.0, 10.0 + lat, 0.0)[0]
            if not abs(d - a * math.radians(abs(lat))) <= 1e-12 * a:
                return "equatorial distance = %r, a |dlambda| = %r" % (d, a * math.radians(abs(lat)))
        return None

    def check_set(self, ell1, ell2, lat):
        """e = Earth(E1); e.set(E2): identities on E2; Earth(E2) directly; two objects alive at once"""
        (x1, a1, f1, o1), (x2, a2, f2, o2) = ell1, ell2
        es1 = ("Ellipsoid(%r, %r, %r)" % (a1, f1, o1)) if x1 is None else x1
        es2 = ("Ellipsoid(%r, %r, %r)" % (a2, f2, o2)) if x2 is None else x2
        mk = lambda x, a, f, o: self.Ellipsoid(a, f, o) if x is None else getattr(self.Em, x)
        show = "print(e.rho_cosphi(%r,0.0), e.rho_sinphi(%r,0.0), e.rp(%r), e.linear_velocity(%r), e.rm(0.0), e.rm(90.0), e.rm(%r))" % ((lat,) * 5)
        seqs = [
            ("e=Earth(%s); e.set(%s); " % (es1, es2), lambda: self._seq_set(mk(x1, a1, f1, o1), mk(x2, a2, f2, o2))),
            ("e=Earth(); e.set(%s); " % es2, lambda: self._seq_set(None, mk(x2, a2, f2, o2))),
            ("e=Earth(%s); " % es2, lambda: self.Earth(mk(x2, a2, f2, o2))),
            ("e0=Earth(%s); e0.rp(%r); e=Earth(%s); e0.rm(%r); " % (es1, lat, es2, lat), lambda: self._seq_two(mk(x1, a1, f1, o1), mk(x2, a2, f2, o2), lat)),
            ("e=Earth(%s); e1=Earth(%s); e1.set(IAU76); e1.rp(%r); " % (es2, es1, lat), lambda: self._seq_other(mk(x1, a1, f1, o1), mk(x2, a2, f2, o2), lat)),
        ]
        for pre, build in seqs:
            self.n += 8
            try:
                e = build()
                bad = self.identities_on(e, a2, f2, o2, lat)
            except Exception as ex:
                bad = "raises %s: %s" % (type(ex).__name__, ex)
            if bad:
                self.add("set-ellipsoid-identities", "after `%s` at latitude %r: %s" % (pre.strip(), lat, bad),
                         {"sequence": pre, "latitude": lat}, pre + show)
            else:
                self.nontriv += 1

    def _seq_set(self, first, second):
        e = self.Earth() if first is None else self.Earth(first)
        e.rp(33.0); e.rm(33.0)          # use the object before changing the ellipsoid
        e.set(second)
        return e

    def _seq_two(self, first, second, lat):
        e0 = self.Earth(first); e0.rp(lat)
        e = self.Earth(second)
        e0.rm(lat); e0.linear_velocity(lat)
        return e

    def _seq_other(self, first, second, lat):
        e = self.Earth(second)
        e1 = self.Earth(first)
        e1.set(self.Em.IAU76); e1.rp(lat); e1.rm(lat)
        return e

    # -- distance
    def check_pair(self, ellx, a, f, om, p, as_angle):
        ell = self.Ellipsoid(a, f, om) if ellx is None else getattr(self.Em, ellx)
        es = ("Ellipsoid(%r, %r, %r)" % (a, f, om)) if ellx is None else ellx
        e = self.Earth(ell)
        A = self.Angle
        lon1, lat1, lon2, lat2 = p
        if as_angle:
            args = "Angle(%r), Angle(%r), Angle(%r), Angle(%r)" % p
            rev = "Angle(%r), Angle(%r), Angle(%r), Angle(%r)" % (lon2, lat2, lon1, lat1)
            d12 = self.call("distance", "Earth(%s).distance(%s)" % (es, args), lambda: e.distance(A(lon1), A(lat1), A(lon2), A(lat2)))
            d21 = self.call("distance", "Earth(%s).distance(%s)" % (es, rev), lambda: e.distance(A(lon2), A(lat2), A(lon1), A(lat1)))
        else:
            args = "%r, %r, %r, %r" % p
            rev = "%r, %r, %r, %r" % (lon2, lat2, lon1, lat1)
            d12 = self.call("distance", "Earth(%s).distance(%s)" % (es, args), lambda: e.distance(lon1, lat1, lon2, lat2))
            d21 = self.call("distance", "Earth(%s).distance(%s)" % (es, rev), lambda: e.distance(lon2, lat2, lon1, lat1))
        if d12 is None or d21 is None: return
        self.nontriv += 1
        code = "e=Earth(%s); print(e.distance(%s), e.distance(%s))" % (es, args, rev)
        inp = {"ellipsoid": es, "pair": list(p), "as_angle": as_angle}
        d, err = d12
        if not (isinstance(d, float) and math.isfinite(d) and d >= 0.0 and math.isfinite(err)):
            self.add("distance-not-finite", "distance(%s) = %r" % (args, d12), inp, code); return
        if not abs(d - d21[0]) <= 1e-9 * d or d21[1] != err:
            self.add("distance-symmetry", "distance(%s) = %r but reversed %r" % (args, d12, d21), inp, code)
        if err != round(d * f * f, 0):
            self.add("distance-error-term", "distance(%s) error = %r, round(dist f^2) = %r" % (args, err, round(d * f * f, 0)), inp, code)
        # spherical arc between the points (haversine, independent)
        p1, p2 = math.radians(lat1), math.radians(lat2)
        dl = math.radians(lon1 - lon2)
        hav = math.sin((p1 - p2) / 2) ** 2 + math.cos(p1) * math.cos(p2) * math.sin(dl / 2) ** 2
        sigma = 2.0 * math.atan2(math.sqrt(hav), math.sqrt(max(0.0, 1.0 - hav)))
        if lon1 == lon2 and lat1 == lat2:
            if d12 != (0.0, 0.0):
                self.add("distance-coincident", "distance of coincident points (%s) = %r, not (0.0, 0.0)" % (args, d12), inp, code)
            return
        b = a * (1.0 - f)
        if sigma < 1e-9:      # nearly coincident: tiny and finite
            if not d <= 1.01 * a * sigma + 1e-6:
                self.add("distance-nearly-coincident", "distance(%s) = %r for an arc of %r rad" % (args, d, sigma), inp, code)
            return
        # equator
        if lat1 == 0.0 and lat2 == 0.0 and 0.0 < abs(lon1 - lon2) < 180.0:
            want = a * math.radians(abs(lon1 - lon2))
            if not abs(d - want) <= 1e-12 * want + 1e-9:
                self.add("distance-equator", "distance(%s) = %r, a |dlambda| = %r" % (args, d, want), inp, code)
        # meridian arc = integral of rm
        if lon1 == lon2 and lat1 != lat2:
            arc = simpson(lambda x: e.rm(x), min(lat1, lat2), max(lat1, lat2), 400) * math.pi / 180.0
            self.n += 401
            tol = 1e-4                       # the property's number, for every ellipsoid in its range (f <= 0.01)
            rel = abs(d - arc) / arc
            if not rel <= tol:
                # known finding (not repairable: Andoyer's formula is first order in f, remainder <= 2 f^2):
                # user ellipsoids with f above 0.0098 exceed the literal 1e-4 by a few per cent (1.02e-4 at f = 0.01)
                key = ("distance-meridian-arc-first-order-f-near-0.01"
                       if (not ellx and 0.0098 < f <= 0.01 and rel <= 1.2e-4) else "distance-meridian-arc")
                self.add(key, "distance(%s) = %r, integral of rm = %r (rel %.3g > %.3g, f = %r)" % (args, d, arc, rel, tol, f), inp, code)
        # within 0.6 % of the great circle (sphere of mean radius) for the built-in ellipsoids;
        # for any ellipsoid Andoyer's correction lies in [-2f, f] (plus second order)
        # (sphere of mean radius (2a+b)/3; the text does not say which sphere - this one is the most favourable)
        gc = (2.0 * a + b) / 3.0 * sigma
        if not abs(d - gc) <= 0.006 * gc:
            # known finding (the property's 0.6 % cannot hold on strongly flattened user ellipsoids: arcs along the
            # equator and along a meridian differ by 2f themselves): only user ellipsoids with f > 0.0036, deviation
            # inside the geometric envelope [-5f/3, +4f/3] (+ second order)
            dev = abs(d - gc) / gc
            key = ("distance-great-circle-0.6pct-user-ellipsoid-f-above-0.0036"
                   if (not ellx and 0.0036 < f <= 0.01 and dev <= 1.75 * f) else "distance-great-circle")
            self.add(key, "distance(%s) = %r, great circle of the mean radius %r (%.3f %% > 0.6 %%, f = %r)" % (args, d, gc, 100 * dev, f), inp, code)
        ratio = d / (a * sigma)
        if not (1.0 - 2.0 * f - 1e-7 - 2 * f * f <= ratio <= 1.0 + f + 1e-7 + 2 * f * f):
            self.add("distance-andoyer-range", "distance(%s) / (a sigma) = %r outside [1-2f, 1+f], f = %r" % (args, ratio, f), inp, code)

    # -- parallax
    def horizontal_parallax_clause(self, key, code, disp, dist, rho, h, inp, rep):
        """the property's literal clause: displacement <= asin(sin 8.794''/distance).  An observer ABOVE the
        reference ellipsoid (h > 0, geocentric distance rho > 1 equatorial radius) legitimately exceeds it by
        at most the factor rho <= 1 + h/a (proved: C18_parallax_displacement_bound, C18_rho_bound); exactly
        that excess goes to the bounded key below, anything beyond stays the violation key."""
        literal = math.asin(min(1.0, SIN_PI0 / dist))
        if disp <= literal * (1 + 1e-9) + 1e-12:
            return
        own = math.asin(min(1.0, rho * SIN_PI0 / dist))
        if h > 0.0 and rho > 1.0 and disp <= own * (1 + 1e-9) + 1e-12:
            self.add("parallax-exceeds-horizontal-parallax-elevated-observer",
                     "%s displaces by %r rad = %.6f x the horizontal parallax asin(sin 8.794''/d) = %r; observer at h = %r m, rho = %.6f (<= 1 + h/a)"
                     % (code, disp, disp / literal, literal, h, rho), inp, rep)
        else:
            self.add(key, "%s displaces by %r rad > horizontal parallax %r (observer's own bound asin(rho sin pi/d) = %r, rho = %r)"
                     % (code, disp, literal, own, rho), inp, rep)

    def check_parallax_eq(self, ra, dec, lat, dist, H, h):
        A = self.Angle
        code = "Earth.parallax_correction(Angle(%r), Angle(%r), Angle(%r), %r, Angle(%r), %r)" % (ra, dec, lat, dist, H, h)
        r = self.call("parallax-correction", code, lambda: self.Earth.parallax_correction(A(ra), A(dec), A(lat), dist, A(H), h))
        if r is None: return
        self.nontriv += 1
        tra, tdec = float(r[0]), float(r[1])
        a, f, _ = BUILTIN["WGS84"]
        rc, rs = geocentric(a, f, lat, h)
        rho = math.hypot(rc, rs)
        u = unit(math.radians(ra), math.radians(dec))
        v = unit(math.radians(tra), math.radians(tdec))
        disp = sep(u, v)
        bound = math.asin(min(1.0, rho * SIN_PI0 / dist))
        rep = "r=%s; print(float(r[0]), float(r[1]))" % code
        inp = [ra, dec, lat, dist, H, h]
        # denominator of Meeus 40.2/40.3; negative when the body is nearer to a celestial pole than its parallax
        denom = math.cos(math.radians(dec)) - rc * SIN_PI0 / dist * math.cos(math.radians(H))
        if denom <= 1e-15 and (not -90.0 <= tdec <= 90.0 or not disp <= bound * (1 + 1e-9) + 1e-12):
            self.add("parallax-correction-near-pole", "%s = (%r, %r): body nearer to the celestial pole than its parallax, result displaced by %r rad (horizontal parallax %r)" % (code, tra, tdec, disp, bound), inp, rep)
            return
        self.horizontal_parallax_clause("parallax-correction-exceeds-horizontal", code, disp, dist, rho, h, inp, rep)
        # independent vector computation: observer at local sidereal time theta = ra + H
        th = math.radians(ra + H)
        k = SIN_PI0 / dist
        w = (u[0] - k * rc * math.cos(th), u[1] - k * rc * math.sin(th), u[2] - k * rs)
        if not sep(w, v) <= 1e-9:
            self.add("parallax-correction-vector", "%s = (%r, %r), vector computation differs by %r rad" % (code, tra, tdec, sep(w, v)), inp, rep)

    def check_parallax_ecl(self, lon, lat, semi, obs, eps, sid, dist, h):
        A = self.Angle
        code = "Earth.parallax_ecliptical(Angle(%r), Angle(%r), Angle(%r), Angle(%r), Angle(%r), Angle(%r), %r, %r)" % (lon, lat, semi, obs, eps, sid, dist, h)
        r = self.call("parallax-ecliptical", code, lambda: self.Earth.parallax_ecliptical(A(lon), A(lat), A(semi), A(obs), A(eps), A(sid), dist, h))
        if r is None: return
        self.nontriv += 1
        tlon, tlat, tsemi = float(r[0]), float(r[1]), float(r[2])
        a, f, _ = BUILTIN["WGS84"]
        rc, rs = geocentric(a, f, obs, h)
        rho = math.hypot(rc, rs)
        u = unit(math.radians(lon), math.radians(lat))
        rep = "r=%s; print(float(r[0]), float(r[1]), float(r[2]))" % code
        inp = [lon, lat, semi, obs, eps, sid, dist, h]
        if not (-90.0 <= tlat <= 90.0) or (semi > 0 and not tsemi > 0):
            self.add("parallax-ecliptical-negative-latitude", "%s = (%r, %r, %r): latitude outside [-90, 90] or semidiameter not positive" % (code, tlon, tlat, tsemi), inp, rep)
            return
        v = unit(math.radians(tlon), math.radians(tlat))
        disp = sep(u, v)
        self.horizontal_parallax_clause("parallax-ecliptical-exceeds-horizontal", code, disp, dist, rho, h, inp, rep)
        t, ep = math.radians(sid), math.radians(eps)
        ox, oy, oz = rc * math.cos(t), rc * math.sin(t), rs
        ex, ey, ez = ox, oy * math.cos(ep) + oz * math.sin(ep), -oy * math.sin(ep) + oz * math.cos(ep)
        k = SIN_PI0 / dist
        w = (u[0] - k * ex, u[1] - k * ey, u[2] - k * ez)
        if not sep(w, v) <= 1e-9:
            self.add("parallax-ecliptical-vector", "%s = (%r, %r), vector computation differs by %r rad" % (code, tlon, tlat, sep(w, v)), inp, rep)
        nw = math.sqrt(w[0] ** 2 + w[1] ** 2 + w[2] ** 2)
        want = math.degrees(math.asin(min(1.0, math.sin(math.radians(semi)) / nw)))
        if not abs(tsemi - want) <= 1e-9 + 1e-9 * want:
            self.add("parallax-ecliptical-semidiameter", "%s semidiameter %r, expected %r" % (code, tsemi, want), inp, rep)


def user_ell(rng):
    f = rng.choice([0.0, 1e-6, 1.0 / 298.257, 0.005, 0.01]) if rng.random() < 0.5 else rng.uniform(0.0, 0.01)
    a = rng.choice([6378140.0, 6378137.0, 1.0, 6.0e6]) if rng.random() < 0.5 else rng.uniform(1e6, 1e7)
    return (None, a, f, rng.choice([7.292114992e-5, 7292115e-11, 1e-4]))


def pick_ell(rng):
    r = rng.random()
    if r < 0.3: return ("IAU76",) + BUILTIN["IAU76"]
    if r < 0.6: return ("WGS84",) + BUILTIN["WGS84"]
    return user_ell(rng)


def search(rng, tier, deep):
    mods = load(["Angle", "Earth"])
    O = Oracle(mods)
    big = deep or tier == "thorough"
    npt, npair, npar = (6000, 6000, 6000) if big else (700, 700, 500)
    O.check_constants()
    for lat in LATS + [rng.uniform(-90, 90) for _ in range(60 if big else 20)]:
        O.check_rho(lat)
    for i in range(npt):
        ell = pick_ell(rng)
        lat = LATS[i] if i < len(LATS) else clamp_lat(gen_lat(rng))
        O.check_point(*ell, lat, gen_height(rng), rng.random() < 0.4)
    for ell in [("IAU76",) + BUILTIN["IAU76"], ("WGS84",) + BUILTIN["WGS84"]] + [user_ell(rng) for _ in range(20 if big else 6)]:
        O.check_rm_profile(*ell, rng)
    special = [(None, 6378140.0, 0.0, 7.292114992e-5), (None, 6378140.0, 0.01, 7.292114992e-5), (None, 1.0e6, 0.005, 1e-4),
               ("IAU76",) + BUILTIN["IAU76"], ("WGS84",) + BUILTIN["WGS84"]]
    for i in range(120 if big else 30):
        e1 = special[i % len(special)] if i < 10 else pick_ell(rng)
        e2 = special[(i // 2) % len(special)] if i < 10 else user_ell(rng)
        O.check_set(e1, e2, rng.choice([42.0, -33.356111, 0.5, 89.0]) if i < 10 else clamp_lat(gen_lat(rng)))
    fixed = [(0.0, 0.0, 0.0, 0.0), (0.0, 0.0, 180.0, 0.0), (0.0, 90.0, 0.0, -90.0), (10.0, 30.0, -170.0, -30.0),
             (0.0, 0.0, 1e-12, 0.0), (12.5, 0.0, -100.0, 0.0), (7.0, -90.0, 7.0, 90.0), (7.0, -90.0, 7.0, 0.0),
             (-2.337222, 48.836389, 77.065556, 38.921389)]
    for i in range(npair):
        ell = pick_ell(rng)
        p = fixed[i] if i < len(fixed) else gen_pair(rng)
        O.check_pair(*ell, p, rng.random() < 0.3)
    for i in range(npar):
        dist = rng.choice([1e-3, 1e3, 0.0024650163, 0.37276, 1.0]) if rng.random() < 0.3 else 10.0 ** rng.uniform(-3, 3)
        lat = clamp_lat(gen_lat(rng))
        h = gen_height(rng)
        O.check_parallax_eq(rng.uniform(0, 360), rng.choice([-90.0, -89.9, 0.0, 89.9, 90.0]) if rng.random() < 0.1 else rng.uniform(-90, 90),
                            lat, dist, rng.uniform(0, 360), h)
        O.check_parallax_ecl(rng.uniform(0, 360), rng.choice([-5.0, -1e-9, 0.0, 1e-9, 5.0]) if rng.random() < 0.3 else rng.uniform(-89, 89),
                             rng.uniform(0.001, 0.3), lat, rng.uniform(22, 24.5), rng.uniform(0, 360), dist, h)
    O.check_parallax_eq(30.0, 89.5, 0.0, 0.0025, 0.0, 0.0)
    O.check_parallax_eq(0.0, 0.0, -0.1, 1.0, 90.0, 9000.0)      # elevated observer: literal bound exceeded by the factor rho
    O.check_parallax_eq(56.7, -90.0, 59.8, 5.27, 334.5, 0.0)
    O.check_parallax_eq(339.530208, -15.771083, 33.356111, 0.37276, 288.7958, 0.0)
    O.check_parallax_ecl(10.0, -5.0, 0.2709722222222222, 50.08550000000001, 23.46688888888889, 209.76886111111114, 0.0024650163, 0.0)
    O.check_parallax_ecl(0.0, 0.0, 0.27, 50.0, 23.44, 209.0, 0.0024650163, 0.0)
    stats = {"evaluations": O.n, "distinct_nontrivial": O.nontriv,
             "rule": "call sequences Earth(E1); use; set(E2) / Earth(E2) / two objects alive, then all identity clauses on E2; latitudes -90..90 (poles, equator, +-1e-9, 1 ulp inside the poles) x heights -500..9000 m x {IAU76, WGS84, user ellipsoids f in [0, 0.01]}: "
                     "ellipse identity, closed forms, rp/rm/linear velocity/height identities; %d point pairs (coincident, 1e-12 deg apart, antipodal, nearly "
                     "antipodal, same meridian with Simpson integral of rm, equatorial, pole to pole): symmetry, 0, a|dlambda|, 1e-4, 0.6 %%; %d parallax "
                     "configurations per function, distances 1e-3..1e3 AU: horizontal-parallax bound and independent vector computation" % (npair, npar),
             "samples": [{"input": "Earth(IAU76), lat 42.0, h 1706.0", "checked": "x^2+(y a/b)^2=1, rp = a x, closed forms, height term"},
                         {"input": "distance(0.0, 0.0, 180.0, 0.0)", "checked": "symmetric, a*pi*(1+-0.6%), no exception"}],
             "exhaustive_search": False}
    return O.findings, stats
