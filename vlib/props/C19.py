"""C19 — Easter, Pesach and Moslem-calendar conversions follow their calendar rules."""
from vlib import common as K, calref as R, ref_C19 as S
from vlib.impl import load

ID = "C19"
MODULES = ["base", "Angle", "Epoch"]
REQUIRED = ["iint", "Epoch.easter", "Epoch.jewish_pesach", "Epoch.moslem2gregorian", "Epoch.gregorian2moslem",
            "Epoch.dow", "Epoch.doy2date", "Epoch.is_julian", "Epoch.is_leap", "Epoch.__init__", "Epoch.set",
            "Epoch._compute_jde", "Epoch._check_values"]
THEOREMS = ["C19_easter", "C19_easter_sunday", "C19_pesach", "C19_moslem2gregorian", "C19_roundtrip",
            "C19_gregorian2moslem", "C19_roundtrip_civil", "C19_consecutive", "C19_lengths", "C19_islamic_bijection"]
PROOF_TIMEOUT = {"quick": 1500, "thorough": 3000}
EXHAUSTIVE = True
MANIFEST = {
    "category": "proof",
    "text": "T1: the regenerated binary64 model of Epoch.easter / jewish_pesach / moslem2gregorian / gregorian2moslem / dow is evaluated by the Coq kernel on every Easter year -4712..10000, every Pesach year 1..3000 and every date of 1..2500 AH (885 917 dates, 16 shards) against hand-written Computus / Hebrew / Islamic calendar specs and the independent civil day count, and lifted to forall-theorems; the Islamic spec is proved bijective for all years by lia; bit-exact correspondence model vs implementation every run.",
    "technique": "kernel computation over the full finite domain (vm_compute reflection) + lia on the calendar specs + generated model + bit-exact differential correspondence",
    "design_ref": "8/C19",
}
EXPLANATION = ("easter, jewish_pesach, moslem2gregorian, gregorian2moslem and dow of the model regenerated from /repo are "
               "evaluated by the Coq kernel (binary64 instance, no libm) on EVERY year -4712..10000 (Easter), 1..3000 (Pesach) "
               "and every date of 1..2500 AH (both directions, 16 shards) against the tabular Computus, the arithmetic Hebrew "
               "calendar, the tabular Islamic calendar and the independent day count Spec.CalSpec.jdn, then lifted to "
               "forall-statements (Range.all_range_spec); the civil->Moslem statement for every civil date 622-07-16..3048-02-07 "
               "follows from surjectivity/injectivity of the Islamic day count, proved for all years by lia.")
CLAUSES = {
    "Easter = tabular-epact Computus date (Julian to 1582, Gregorian from 1583), every year -4712..10000":
        "proved [B64, kernel computation over the full domain]",
    "Easter is a Sunday (independent day count and Epoch(y,m,d).dow()) within 22 Mar..25 Apr":
        "proved [B64, full domain]",
    "Pesach 1..3000 = 15 Nisan = Rosh Hashanah(next) - 163 of the arithmetic Hebrew calendar":
        "proved [B64, full domain]",
    "Pesach falls on Sun/Tue/Thu/Sat": "proved [B64, full domain]",
    "moslem2gregorian = civil date of the arithmetic Islamic day number (epoch 16 July 622 Julian), every date 1..2500 AH":
        "proved [B64, full domain]",
    "round trip gregorian2moslem(moslem2gregorian(date)) = date": "proved [B64, full domain]",
    "gregorian2moslem = arithmetic Islamic calendar for every civil date 622-07-16..3048-02-07 (covers ..3000)":
        "proved [B64 full domain + spec bijection]",
    "round trip moslem2gregorian(gregorian2moslem(civil date)) = civil date, 622-07-16..3048-02-07":
        "proved [B64 full domain + spec bijection + CalSpec.jdn_inj]",
    "consecutive Moslem dates -> consecutive civil days": "proved [B64 + spec lemma islamic_jdn_next]",
    "months 30/29 days, years 354/355 days": "proved [B64 + spec]",
    "the arithmetic Islamic day count is a bijection stepping by one for ALL years": "proved [spec, lia]",
}


def proof_files(tier):
    return (["C19_defs.v", "C19_easter.v", "C19_pesach.v"] + ["C19_shard_%02d.v" % k for k in range(16)]
            + ["C19_main.v", "C19.v"])


# ------------------------------------------------------------------ correspondence cases
def cases(rng, tier):
    n = 60 if tier == "quick" else 600
    cs = []
    ys = [-4712, -4711, -1, 0, 1, 325, 1581, 1582, 1583, 1584, 1699, 1700, 1900, 2000, 2038, 9999, 10000]
    for y in ys + [rng.randint(-4712, 10000) for _ in range(n)]:
        cs.append("Epoch.easter(%d)" % y)
    for y in [1, 2, 1582, 1583, 1990, 2999, 3000] + [rng.randint(1, 3000) for _ in range(n)]:
        cs.append("Epoch.jewish_pesach(%d)" % y)
    for _ in range(n):
        h = rng.choice([1, 2, 990, 991, 2500, rng.randint(1, 2500), rng.randint(1, 2500)])
        m = rng.randint(1, 12)
        d = rng.choice([1, 29, S.islamic_mlen(h, m), rng.randint(1, 29)])
        cs.append("Epoch.moslem2gregorian(%d, %d, %d)" % (h, m, d))
        y, mo, da = R.civil_of_jdn(S.islamic_jdn(h, m, d))
        cs.append("Epoch.gregorian2moslem(%d, %d, %d)" % (y, mo, da))
        if y < 1582:
            cs.append("Epoch.gregorian2moslem(%d, %d, %r)" % (y, mo, float(da)))
        cs.append("Epoch(%d, %d, %d).dow()" % (y, mo, da))
    for (y, mo, da) in [(1582, 10, 4), (1582, 10, 15), (622, 7, 16), (622, 7, 15), (3000, 12, 31), (2000, 2, 29),
                        (1500, 2, 29), (1900, 3, 1), (-100, 5, 5)]:
        cs.append("Epoch.gregorian2moslem(%d, %d, %d)" % (y, mo, da))
    cs += ["Epoch.easter(2000.7)", "Epoch.easter('2000')", "Epoch.jewish_pesach(1990.0)", "Epoch.jewish_pesach(None)",
           "Epoch.moslem2gregorian(0, 1, 1)", "Epoch.moslem2gregorian(1, 13, 1)", "Epoch.moslem2gregorian(1, 1, 31)",
           "Epoch.moslem2gregorian(1421.0, 1.0, 1.0)", "Epoch.moslem2gregorian('1', 1, 1)",
           "Epoch.gregorian2moslem(2000, 1, 32)", "Epoch.gregorian2moslem(2000, 0, 1)",
           "Epoch.gregorian2moslem(1991.0, 8.0, 13.5)", "Epoch.gregorian2moslem(-4713, 1, 1)",
           "Epoch.gregorian2moslem(2000, 'Jan', 1)", "Epoch.doy2date(1582, 278)", "Epoch.doy2date(900, 60)"]
    return cs


# ------------------------------------------------------------------ search oracle
REPLAY = "PYTHONPATH=/repo /venv/bin/python -c \"from pymeeus.Epoch import Epoch; print(%s)\""


class Oracle:
    def __init__(self, Epoch):
        self.E = Epoch
        self.findings = []
        self.n = 0
        self.nontriv = 0

    def add(self, key, what, inp, expr):
        if len(self.findings) < 60:
            self.findings.append({"key": key, "what": what, "input": inp, "replay": REPLAY % expr})

    @staticmethod
    def is_int(x):
        return isinstance(x, int) and not isinstance(x, bool)

    # -- Easter
    def easter(self, y):
        self.n += 1
        expr = "Epoch.easter(%d)" % y
        try:
            r = self.E.easter(y)
        except Exception as ex:
            return self.add("easter-raises", "%s raises %s" % (expr, type(ex).__name__), [y], expr)
        if not (isinstance(r, tuple) and len(r) == 2 and self.is_int(r[0]) and self.is_int(r[1])):
            return self.add("easter-not-a-date", "%s = %r" % (expr, r), [y], expr)
        self.nontriv += 1
        m, d = r
        want = S.easter(y)
        if (m, d) != want:
            self.add("easter-not-computus", "%s = %r, the tabular Computus gives %r" % (expr, r, want), [y], expr)
        if not ((m == 3 and 22 <= d <= 31) or (m == 4 and 1 <= d <= 25)):
            return self.add("easter-outside-22mar-25apr", "%s = %r" % (expr, r), [y], expr)
        if (R.jdn(y, m, d) + 1) % 7 != 0:
            self.add("easter-not-sunday", "%s = %r is weekday %d (0 = Sunday) by the day count"
                     % (expr, r, (R.jdn(y, m, d) + 1) % 7), [y], expr)
        try:
            w = self.E(y, m, d).dow()
        except Exception as ex:
            return self.add("dow-raises", "Epoch(%d,%d,%d).dow() raises %s" % (y, m, d, type(ex).__name__), [y],
                            "Epoch(%d,%d,%d).dow()" % (y, m, d))
        if w != 0:
            self.add("easter-dow-not-sunday", "Epoch(%d,%d,%d).dow() = %r for Easter %r" % (y, m, d, w, r), [y],
                     "Epoch.easter(%d), Epoch(%d,%d,%d).dow()" % (y, y, m, d))

    # -- Pesach
    def pesach(self, y):
        self.n += 1
        expr = "Epoch.jewish_pesach(%d)" % y
        try:
            r = self.E.jewish_pesach(y)
        except Exception as ex:
            return self.add("pesach-raises", "%s raises %s" % (expr, type(ex).__name__), [y], expr)
        if not (isinstance(r, tuple) and len(r) == 2 and self.is_int(r[0]) and self.is_int(r[1]) and R.valid(y, *r)):
            return self.add("pesach-not-a-date", "%s = %r" % (expr, r), [y], expr)
        self.nontriv += 1
        m, d = r
        want = S.pesach_jdn(y)
        if R.jdn(y, m, d) != want:
            self.add("pesach-not-15-nisan", "%s = %r, 15 Nisan (Rosh Hashanah AM %d - 163 days) is %r"
                     % (expr, r, y + 3761, R.civil_of_jdn(want)), [y], expr)
        w = (R.jdn(y, m, d) + 1) % 7
        if w not in (0, 2, 4, 6):
            self.add("pesach-weekday", "%s = %r is weekday %d (0 = Sunday)" % (expr, r, w), [y], expr)
        try:
            w2 = self.E(y, m, d).dow()
        except Exception as ex:
            return self.add("dow-raises", "Epoch(%d,%d,%d).dow() raises %s" % (y, m, d, type(ex).__name__), [y],
                            "Epoch(%d,%d,%d).dow()" % (y, m, d))
        if w2 not in (0, 2, 4, 6):
            self.add("pesach-dow-weekday", "Epoch(%d,%d,%d).dow() = %r for Pesach %r" % (y, m, d, w2, r), [y],
                     "Epoch.jewish_pesach(%d), Epoch(%d,%d,%d).dow()" % (y, y, m, d))

    # -- Moslem -> civil; returns the JDN of the result or None
    def m2g(self, h, m, d, report=True):
        self.n += 1
        expr = "Epoch.moslem2gregorian(%d, %d, %d)" % (h, m, d)
        try:
            g = self.E.moslem2gregorian(h, m, d)
        except Exception as ex:
            if report: self.add("m2g-raises", "%s raises %s" % (expr, type(ex).__name__), [h, m, d], expr)
            return None, None
        ok = (isinstance(g, tuple) and len(g) == 3 and self.is_int(g[0]) and self.is_int(g[1])
              and isinstance(g[2], (int, float)) and not isinstance(g[2], bool) and g[2] == int(g[2])
              and R.valid(g[0], g[1], int(g[2])))
        if not ok:
            if report: self.add("m2g-not-a-civil-date", "%s = %r is not a date of the civil calendar" % (expr, g), [h, m, d], expr)
            return g, None
        return g, R.jdn(g[0], g[1], int(g[2]))

    def moslem_date(self, h, m, d):
        g, j = self.m2g(h, m, d)
        if j is None:
            return
        self.nontriv += 1
        expr = "Epoch.moslem2gregorian(%d, %d, %d)" % (h, m, d)
        want = S.islamic_jdn(h, m, d)
        civ = R.civil_of_jdn(want)
        if j != want:
            self.add("m2g-not-islamic-calendar", "%s = %r, the arithmetic Islamic calendar (epoch 16 Jul 622) gives %r"
                     % (expr, g, civ), [h, m, d], expr)
        # round trip with the tuple as returned
        self.n += 1
        e2 = "Epoch.gregorian2moslem(*Epoch.moslem2gregorian(%d, %d, %d))" % (h, m, d)
        try:
            b = self.E.gregorian2moslem(*g)
            if tuple(b) != (h, m, d) or not all(self.is_int(x) for x in b):
                self.add("roundtrip", "%s = %r, expected (%d, %d, %d) [civil %r]" % (e2, b, h, m, d, g), [h, m, d], e2)
        except Exception as ex:
            self.add("roundtrip", "%s raises %s" % (e2, type(ex).__name__), [h, m, d], e2)
        # civil -> Moslem on the civil date of the spec
        self.n += 1
        e3 = "Epoch.gregorian2moslem(%d, %d, %d)" % civ
        try:
            b = self.E.gregorian2moslem(*civ)
            if tuple(b) != (h, m, d) or not all(self.is_int(x) for x in b):
                self.add("g2m-not-islamic-calendar", "%s = %r, the arithmetic Islamic calendar gives (%d, %d, %d)"
                         % (e3, b, h, m, d), list(civ), e3)
        except Exception as ex:
            self.add("g2m-raises", "%s raises %s" % (e3, type(ex).__name__), list(civ), e3)
        # consecutive dates -> consecutive days
        h2, m2, d2 = S.islamic_next(h, m, d)
        if h2 <= 2500:
            g2, j2 = self.m2g(h2, m2, d2, report=False)
            if j2 is not None and j2 != j + 1:
                self.add("consecutive", "moslem2gregorian(%d,%d,%d) = %r and moslem2gregorian(%d,%d,%d) = %r are %d days apart"
                         % (h, m, d, g, h2, m2, d2, g2, j2 - j), [h, m, d],
                         "Epoch.moslem2gregorian(%d,%d,%d), Epoch.moslem2gregorian(%d,%d,%d)" % (h, m, d, h2, m2, d2))

    def lengths(self, h):
        """month and year lengths measured in civil days between converted first days"""
        firsts = [(h, m, 1) for m in range(1, 13)] + ([(h + 1, 1, 1)] if h < 2500 else [])
        js = []
        for t in firsts:
            g, j = self.m2g(*t, report=False)
            js.append(j)
        for k in range(len(js) - 1):
            if js[k] is None or js[k + 1] is None: continue
            ln = js[k + 1] - js[k]
            if ln not in (29, 30) or ln != S.islamic_mlen(h, k + 1):
                self.add("month-length", "month %d of AH %d lasts %d civil days (moslem2gregorian of the first days), calendar: %d"
                         % (k + 1, h, ln, S.islamic_mlen(h, k + 1)), [h, k + 1],
                         "Epoch.moslem2gregorian(%d,%d,1), Epoch.moslem2gregorian(%d,%d,1)" % (firsts[k][:2] + firsts[k + 1][:2]))
        if len(js) == 13 and js[0] is not None and js[12] is not None:
            ln = js[12] - js[0]
            if ln not in (354, 355) or ln != S.islamic_ylen(h):
                self.add("year-length", "AH %d lasts %d civil days, calendar: %d" % (h, ln, S.islamic_ylen(h)), [h],
                         "Epoch.moslem2gregorian(%d,1,1), Epoch.moslem2gregorian(%d,1,1)" % (h, h + 1))

    # -- civil -> Moslem on a civil date
    def civil_date(self, y, m, d):
        j = R.jdn(y, m, d)
        if j < S.ISLAMIC_EPOCH:
            return
        self.n += 1
        self.nontriv += 1
        expr = "Epoch.gregorian2moslem(%d, %d, %d)" % (y, m, d)
        want = S.islamic_of_jdn(j)
        try:
            b = self.E.gregorian2moslem(y, m, d)
        except Exception as ex:
            return self.add("g2m-raises", "%s raises %s" % (expr, type(ex).__name__), [y, m, d], expr)
        if not (isinstance(b, tuple) and len(b) == 3 and all(self.is_int(x) for x in b)) or tuple(b) != want:
            return self.add("g2m-not-islamic-calendar", "%s = %r, the arithmetic Islamic calendar gives %r" % (expr, b, want),
                            [y, m, d], expr)
        if want[0] <= 2500:
            self.n += 1
            e2 = "Epoch.moslem2gregorian(*Epoch.gregorian2moslem(%d, %d, %d))" % (y, m, d)
            try:
                g = self.E.moslem2gregorian(*b)
                if not (len(g) == 3 and g[0] == y and g[1] == m and g[2] == d):
                    self.add("civil-roundtrip", "%s = %r, expected (%d, %d, %d)" % (e2, g, y, m, d), [y, m, d], e2)
            except Exception as ex:
                self.add("civil-roundtrip", "%s raises %s" % (e2, type(ex).__name__), [y, m, d], e2)


def search(rng, tier, deep):
    mods = load(["Epoch"])
    o = Oracle(mods["Epoch"].Epoch)
    full = deep or tier == "thorough"
    # Easter and Pesach: always every year of the property's quantifier (cheap)
    eyears = range(-4712, 10001)
    for y in eyears:
        o.easter(y)
    pyears = range(1, 3001)
    for y in pyears:
        o.pesach(y)
    # Moslem years: every date of the chosen years
    hyears = range(1, 2501) if full else sorted(set([rng.randint(1, 2500) for _ in range(70)]
                                                    + [1, 2, 3, 29, 30, 31, 555, 556, 790, 791, 989, 990, 991, 992, 1412, 1421,
                                                       1446, 2499, 2500]))
    for h in hyears:
        for m in range(1, 13):
            for d in range(1, S.islamic_mlen(h, m) + 1):
                o.moslem_date(h, m, d)
        o.lengths(h)
    if not full:
        # around every Moslem new year, and the month/year lengths of every year
        for h in range(1, 2501):
            for (m, d) in ((12, 29), (12, 30), (1, 1), (1, 2)):
                if S.islamic_valid(h, m, d):
                    o.moslem_date(h, m, d)
            if h % 4 == rng.randint(0, 3):
                o.lengths(h)
    # civil dates 622-07-16 .. 3000-12-31
    if full:
        for y in range(622, 3001):
            for m in range(1, 13):
                for d in range(1, R.mlen(y, m) + 1):
                    if R.valid(y, m, d): o.civil_date(y, m, d)
    else:
        for y in range(622, 3001):
            for (m, d) in ((2, 28), (2, 29), (3, 1), (3, 2), (3, 13), (3, 14), (12, 31), (1, 1)):
                if R.valid(y, m, d): o.civil_date(y, m, d)
        for (y, m) in [(622, 7), (622, 8), (1582, 9), (1582, 10), (1582, 11), (1583, 1), (3000, 12)]:
            for d in range(1, R.mlen(y, m) + 1):
                if R.valid(y, m, d): o.civil_date(y, m, d)
        for _ in range(3000):
            y = rng.randint(623, 3000); m = rng.randint(1, 12); d = rng.randint(1, R.mlen(y, m))
            if R.valid(y, m, d): o.civil_date(y, m, d)
    stats = {"evaluations": o.n, "distinct_nontrivial": o.nontriv,
             "rule": ("Easter years %s, Pesach years %s, every date of %s Moslem years (m2g vs Islamic day count, round trip, "
                      "g2m of the civil date, next-day step, month/year lengths)%s, civil dates %s; non-trivial = calls that "
                      "returned a date and were compared with the calendar spec")
                     % (("ALL -4712..10000", "ALL 1..3000", "ALL 2500", "", "ALL 622-07-16..3000-12-31") if full else
                        ("ALL -4712..10000", "ALL 1..3000", "%d sampled/boundary" % len(hyears),
                         " + the days around every Moslem new year 1..2500",
                         "around 1 March/1 January of every year 622..3000, Oct 1582, 3000 random")),
             "samples": [{"input": "Epoch.easter(1583)", "checked": "== Computus (4, 10)... Sunday, in window"},
                         {"input": "Epoch.moslem2gregorian(990, 9, 17)", "checked": "JDN == islamic_jdn; gregorian2moslem back == (990, 9, 17); next date one day later"},
                         {"input": "Epoch.gregorian2moslem(1582, 10, 15)", "checked": "== date of the arithmetic Islamic calendar for that day number"}],
             "exhaustive_search": bool(full)}
    return o.findings, stats
