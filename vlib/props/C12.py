"""C12 — Interpolation reproduces polynomials; roots and extrema lie where asked."""
import math
from fractions import Fraction as Fr
from vlib import common as K
from vlib.impl import load

ID = "C12"
MODULES = K.mods("base", "Angle", "Epoch", "Interpolation", "Coordinates")
REQUIRED = ["Interpolation.__init__", "Interpolation.set", "Interpolation._order_points",
            "Interpolation._compute_table", "Interpolation._newton_diff", "Interpolation.__call__",
            "Interpolation.derivative", "Interpolation.root", "Interpolation.minmax",
            "planetary_conjunction", "planet_star_conjunction", "planet_stars_in_line",
            "minimum_angular_separation"]
THEOREMS = ["C12_through_points", "C12_newton_form", "C12_polynomial", "C12_derivative", "C12_refused",
            "C12_newton_diff_any", "C12_compute_table_any", "C12_call_any", "C12_interpolates_any",
            "C12_derivative_any", "C12_derivative_two", "C12_refused_any",
            "C12_order_points_any", "C12_order_independent_any", "C12_stored_pipeline_any",
            "C12_constructor_any", "C12_constructor_order_independent_any", "C12_constructor_forms_any", "C12_copy_any",
            "C12_duplicates_any", "C12_polynomial_any",
            "C12_root_step", "C12_root_progress", "C12_root_sound", "C12_root_witness", "C12_root_any", "C12_grid_b64", "C12_grid_found"]
PROOF_TIMEOUT = {"quick": 1500, "thorough": 3000}
EXHAUSTIVE = False
MANIFEST = {
    "category": "proof",
    "text": ("T5/T1, real-number instance, by induction over the generated loops (symbolic lists of ANY length n, the model's "
             "recursion fuel bounds n by 64) with the mathematics in Spec/Newton.v: the constructor Interpolation(px, py) - two "
             "lists, two tuples, interleaved scalars (n in 2..64, points in any order) and the copy constructor - builds the object "
             "with strictly increasing abscissae, ordinates carried along and the divided differences as coefficient table, "
             "independently of the order of the points; duplicates give ValueError; __call__ returns y_j at every node and between "
             "the nodes the Horner value of the Newton form, which passes through all points and reproduces every polynomial of "
             "degree < n EXACTLY (uniqueness of the interpolant), derivative() (n >= 3) returns its derivative; ValueError outside "
             "the table; end to end: polynomial data in any order are reproduced (C12_polynomial_any).  Exact real arithmetic: the "
             "relative 1e-9 of the binary64 code is covered by correspondence and search only.  root(): the while loop of the model "
             "keeps the bracket invariant (induction on the loop fuel); for every stored table of 3..64 points and max_iter < 5000 the "
             "outcome is a float inside the ordered, clamped [xl, xh] with |interpolant| <= tol, or ValueError - nothing else (the "
             "model's OutOfFuel is impossible; callees proved total).  PARTIAL CORRECTNESS: that a root is returned for every sign "
             "change is not proved; after the repair edeb4b4 every fallback step provably shrinks the bracket to at most 90 % "
             "(C12_root_progress).  Symbolic 3-point instances (Lagrange parabola) kept; binary64 kernel evaluation of root/minmax on "
             "an explicit grid (24 tables x all limit pairs, 756 roots found) against an independent Lagrange reference; "
             "bit-exact correspondence incl. the four Coordinates helpers; Fraction-exact search oracle for n = 2..9 incl. the "
             "ordinates-only form, mixed forms and copy/set call sequences; the oracle holds values/derivatives to 1e-9 relative to "
             "max(1, max|y|) and roots/extrema to the object's tolerance plus the rounding of its own evaluation, on all tables."),
    "technique": "induction over the generated loops (generic loop-shape theorems matched against the generated text by unification) + "
                 "call-by-value symbolic evaluation (pyrunv) + field/lra/Coquelicot in the ideal instance; pure real analysis "
                 "(Neville recursion, polynomial uniqueness) in Spec/Newton.v; vm_compute reflection over a finite grid in binary64; "
                 "generated model + bit-exact differential correspondence; exact rational reference in the search",
    "design_ref": "8/C12",
}
EXPLANATION = ("Every generated loop of Interpolation (set, _order_points, _compute_table/_newton_diff, __call__, derivative) is "
               "handled by induction for symbolic tables of any length (<= 64): the constructor sorts, stores the divided differences, "
               "__call__ is the Newton form (passes through the points, reproduces polynomials of degree < n exactly), derivative() its "
               "derivative, ValueError outside the table and on duplicates; root(): bracket invariant by induction on the loop fuel, "
               "float in the clamped interval with |P| <= tol or ValueError, never OutOfFuel for max_iter < 5000 (partial correctness: "
               "that a root is found is only searched); root/minmax evaluated by the Coq kernel on an explicit binary64 grid; rounding "
               "(the 1e-9), the ordinates-only and mixed input forms, convergence and the Coordinates helpers are covered by bit-exact "
               "correspondence and the exact-rational search only.")
CLAUSES = {
    "passes through every tabulated point": "proved [ideal, ANY n in 1..64 on the stored object (symbolic lists, abscissae pairwise >= tol apart): __call__ returns y_j at every x_j (C12_call_any; this is the |x - xi| < tol shortcut) AND the Newton polynomial it evaluates between the nodes passes through every point (C12_interpolates_any, Spec/Newton.v: Neville recursion for the Newton form, induction on n)]; n = 3 symbolic version C12_through_points; n = 2..9 searched (exact equality) + bit-exact correspondence",
    "reproduces polynomials of degree < n (relative 1e-9)": "proved [ideal, ANY n in 2..64, END TO END: C12_polynomial_any - points in any order, ordinates p(x_j) with deg p < n => Interpolation(px, py)(x) = p(x) exactly between the nodes and derivative(x) = p'(x) (n >= 3); pieces: _newton_diff = divided differences (C12_newton_diff_any), _compute_table stores them (C12_compute_table_any), __call__ between the nodes = Horner evaluation = Newton form NF (C12_call_any), and NF reproduces every polynomial of degree < n exactly at every x (C12_interpolates_any: a degree < n polynomial with n distinct zeros is 0)]; limits: exact real arithmetic (says nothing about the 1e-9 in binary64), x at least tol away from every node (closer than tol the node ordinate is returned), the model's recursion fuel bounds n by 64; all float input forms (lists, tuples, interleaved scalars, copy) any n; n = 2..9 by correspondence + search against exact Fraction Lagrange; the oracle measures 'relative 1e-9' against max(1, max|y|) of the table (worst observed 4.5e-12 for values, 2.3e-11 for derivatives)",
    "derivative of that polynomial": "proved [ideal, ANY n in 3..64 on the stored object: the three nested generated loops of derivative() return the derivative (Coquelicot is_derive) of the Newton form through all n points, inside the table: C12_derivative_any; n = 2: slope of the chord, C12_derivative_two; symbolic n = 3 version C12_derivative]; exact real arithmetic; n = 2..9 searched",
    "independent of the order of the points and of the input form": "proved [ideal, ANY n in 2..64, two-list form: Interpolation(px, py) for symbolic lists in any order is the object with strictly increasing abscissae, ordinates carried along, divided-difference table (C12_constructor_any: every generated loop of set(), _order_points, _compute_table), and two orders of the same points give the IDENTICAL object (C12_constructor_order_independent_any; _order_points alone for any n >= 1: C12_order_points_any, C12_order_independent_any)]; two tuples and interleaved scalars give the same object as two lists for any n in 2..64 and the copy constructor copies the fields of any table (C12_constructor_forms_any, C12_copy_any); NOT proved: the ordinates-only form Interpolation([y..]), mixed list/tuple arguments, the dropped dangling argument and Angle/int entries (searched); n = 2..9 all forms searched; call sequences copy/set searched (key copy-shares-state); one object used again: evaluate - set() another table through every input form (incl. ordinates only, list+tuple, copy form) or set_tolerance - evaluate must agree bit for bit with a fresh object (searched, key stale-state-after-set)",
    "abscissae outside the table refused with ValueError": "proved [ideal, ANY n: __call__ beyond the tolerance of every node and outside [x_0, x_(n-1)] gives ValueError (C12_refused_any, n >= 1), derivative immediately outside (C12_derivative_any, n >= 3); within tol of an end node __call__ returns that node's ordinate]; n = 3 symbolic version C12_refused; searched n = 2..9; the oracle demands the refusal of __call__ from 2e-10 beyond the table on (and of derivative() from the next float on): closer than the tolerance to an end node the library's documented tolerance semantics identify the abscissa with that node",
    "duplicated abscissae refused with ValueError": "proved [ideal, ANY n >= 2, two-list form: any pair of abscissae closer than tol gives ValueError (C12_duplicates_any: nested duplicate-test loops, first flagged pair in scan order)]; other input forms searched (exact and 5e-11-apart duplicates) + correspondence; 'duplicated' follows the library's documented tolerance semantics: abscissae closer than the tolerance (the oracle uses 0 and 5e-11) must be refused",
    "root(): returned abscissa inside [xl, xh] (ordered, clamped) with |interpolant| <= tol": "proved [ideal, ANY table, max_iter in 0..4999; partial correctness: termination with a root unproved - the outcome is such a float or ValueError, nothing else (OutOfFuel/TypeError/Unsupported excluded): C12_root_step (loop, fuel induction), C12_root_sound (entry paths in-table incl. xl = 0, reversed, reversed+outside, clamped-low, default; 'only xh above the table' not a separate theorem); callee assumption (__call__/derivative return float or ValueError) discharged for EVERY stored table of n = 3..64 points (C12_root_any: no assumption left; __call__/derivative proved total by loop induction) and for the symbolic 3-point table (C12_root_witness)]; proved [B64, explicit grid of 24 tables x all unequal limit pairs: C12_grid_b64, 756 roots found: C12_grid_found]; the oracle demands |P_exact(r)| <= get_tolerance() + 64 units in the last place of the Horner sums (rounding of the object's own evaluation, eval_noise), or r closer than the tolerance to a node that is a zero in that sense (tolerance semantics); searched ALSO on objects with a non-default tolerance (set_tolerance 1e-13, 1e-12, 1e-8, 1e-6: the residual demand follows get_tolerance()) incl. intervals with a limit whose function value is between tol/10 and 1000 tol",
    "root(): a value IS returned whenever the interpolant changes sign (convergence within max_iter)": "unproved (searched): not provable in general; a step towards it after the repair edeb4b4: every fallback step (derivative too small) shrinks the bracket to at most 90 % (C12_root_progress); holds on the B64 grid (C12_grid_b64: ValueError only without a clear sign change); searched on ALL tables; known finding root-tolerance-below-rounding-noise-large-ordinates: next to ordinates above 1000 the absolute tolerance 1e-10 can be below what binary64 resolves (evaluation noise >= tol/2, or no float near the zero has |value| <= tol) and root()/minmax() give up with 'Too many iterations' - everything else is root-not-found / minmax-not-found",
    "minmax(): abscissa inside the interval where the derivative vanishes": "proved [B64, grid only: C12_grid_b64 with the independent Lagrange derivative]; no ideal-instance theorem; searched; searched also on objects with non-default tolerances, held to get_tolerance() like root() (minmax() handing its tolerance to the inner object was repaired in /repo after this oracle found it)",
    "conjunction helpers return the time of zero interpolated difference": "unproved (searched): independent Lagrange interpolation of the coordinate differences, 1e-9; bit-exact correspondence of the four helpers",
    "Angle ordinates (conjunction helpers) with rough data": "refuted: known finding angle-ordinates-newton-derivative-wraps - Interpolation([-3..3],[Angle(a) for a in [-1.57,-3.0,-1.29,-0.7,-0.33,-0.06,0.28]]).root() raises ValueError('Too many iterations'), derivative(Angle(2.5)) = 14.5165 instead of 0.0815",
}


def proof_files(tier):
    return (["C12_defs.v", "C12_tac.v", "C12_ideal.v", "C12_root.v", "C12_witness.v",
             "C12_gen.v", "C12_gend.v", "C12_rootany.v", "C12_order.v", "C12_set.v", "C12_poly.v"]
            + ["C12_grid_%d.v" % k for k in range(NGRID)] + ["C12_main.v", "C12.v"])

NGRID = 8

# ----------------------------------------------------------------------------------------------
# exact reference: polynomials with Fraction coefficients (lowest degree first)
# ----------------------------------------------------------------------------------------------

def pmul(a, b):
    r = [Fr(0)] * (len(a) + len(b) - 1)
    for i, x in enumerate(a):
        for j, y in enumerate(b):
            r[i + j] += x * y
    return r

def padd(a, b):
    n = max(len(a), len(b))
    return [(a[i] if i < len(a) else 0) + (b[i] if i < len(b) else 0) for i in range(n)]

def lagrange_poly(xs, ys):
    """coefficients of the unique polynomial of degree < n through the points (independent of the
    implementation's Newton form: plain Lagrange basis)"""
    xs = [Fr(x) for x in xs]; ys = [Fr(y) for y in ys]
    res = [Fr(0)]
    for i, xi in enumerate(xs):
        num, den = [Fr(1)], Fr(1)
        for j, xj in enumerate(xs):
            if j != i:
                num = pmul(num, [-xj, Fr(1)]); den *= (xi - xj)
        res = padd(res, [c * ys[i] / den for c in num])
    return res

def peval(p, x):
    x = Fr(x); r = Fr(0)
    for c in reversed(p):
        r = r * x + c
    return r

def pderiv(p):
    return [c * k for k, c in enumerate(p)][1:] or [Fr(0)]

def pabs_eval(p, x):
    """sum |c_k| |x|^k : scale against which a relative error is measured (cancellation-safe)"""
    x = abs(Fr(x)); r = Fr(0)
    for c in reversed(p):
        r = r * x + abs(c)
    return r


EPS = Fr(1, 2**53)

def _divdiff(xs, ys):
    """abscissae and, for each order k, a bound on |f[x0..xk]| AND on the rounding error accumulated while the
    object computes it: the divided-difference recursion run on absolute values
    (a[s][k] = (a[s][k-1] + a[s+1][k-1]) / |x_s - x_(s+k)|); the differences themselves can be tiny through
    cancellation while their rounding errors have this size times a few units in the last place"""
    n = len(xs); X = [Fr(v) for v in xs]; dd = [[abs(Fr(y)) for y in ys]]
    for k in range(1, n):
        dd.append([(dd[k - 1][i] + dd[k - 1][i + 1]) / abs(X[i] - X[i + k]) for i in range(n - k)])
    return X, [dd[k][0] for k in range(n)]

def newton_cond(xs, ys, x):
    """sum_k |f[x0..xk]| prod_{i<k} |x - x_i| : the quantity that bounds (times a few units in the last place)
    the rounding error of the Horner evaluation of the Newton form at x"""
    X, c = _divdiff(xs, ys); xf = Fr(x); s = Fr(0); w = Fr(1)
    for k in range(len(X)):
        s += abs(c[k]) * w; w *= abs(xf - X[k])
    return s

def deriv_cond(xs, ys, x):
    """the same for derivative(): sum_k |f[x0..xk]| sum_{j<k} prod_{i<k, i != j} |x - x_i|"""
    X, c = _divdiff(xs, ys); xf = Fr(x); s = Fr(0)
    for k in range(1, len(X)):
        inner = Fr(0)
        for j in range(k):
            w = Fr(1)
            for i in range(k):
                if i != j: w *= abs(xf - X[i])
            inner += w
        s += abs(c[k]) * inner
    return s

def lebesgue(xs, x):
    X = [Fr(v) for v in xs]; xf = Fr(x); s = Fr(0)
    for i in range(len(X)):
        w = Fr(1)
        for j in range(len(X)):
            if j != i: w *= (xf - X[j]) / (X[i] - X[j])
        s += abs(w)
    return s

def eval_noise(what, xs, ys, D, x):
    """a priori size (in absolute terms) of the rounding error with which the object evaluates, at x, the function
    whose zero root()/minmax() looks for.  root: the interpolant.  minmax: the interpolant through the COMPUTED
    derivative values at the nodes (their own rounding, carried through the interpolation by the Lebesgue
    function) plus its evaluation."""
    if what == "root":
        return EPS * newton_cond(xs, ys, x)
    dys = [float(peval(D, t)) for t in xs]
    return EPS * (newton_cond(xs, dys, x) + len(xs) * max(deriv_cond(xs, ys, t) for t in xs) * lebesgue(xs, x))


# ----------------------------------------------------------------------------------------------
# generators
# ----------------------------------------------------------------------------------------------

def gen_abscissae(rng, n):
    kind = rng.random()
    if kind < 0.35:          # equally spaced
        h = rng.choice([1.0, 0.5, 0.25, 2.0, 1.5, 0.1, 3.0])
        x0 = rng.choice([0.0, -1.0, -2.0, 1.0, 7.0, -0.5 * (n - 1), 27.0, -10.5])
        xs = [x0 + h * i for i in range(n)]
    elif kind < 0.55:        # dyadic, unequally spaced
        xs, x = [], float(rng.randint(-8, 8)) / 4
        for _ in range(n):
            xs.append(x); x += rng.choice([0.25, 0.5, 0.75, 1.0, 1.25, 1.5, 2.0])
    else:                    # arbitrary floats, gaps in [0.4, 2.5]
        xs, x = [], rng.uniform(-5, 5)
        for _ in range(n):
            xs.append(x); x += rng.uniform(0.4, 2.5)
    return xs

def gen_table(rng, n=None, want="any"):
    """returns (xs sorted, ys, kind, poly-or-None)"""
    if n is None: n = rng.randint(2, 9)
    xs = gen_abscissae(rng, n)
    k = rng.random()
    if want == "smooth": k = 0.45 + 0.4 * k
    if want == "poly" or (want == "any" and k < 0.45):
        deg = rng.randint(0, n - 1)
        dy = all(float(x * 4).is_integer() for x in xs) and max(abs(x) for x in xs) <= 16
        if dy:
            cs = [Fr(rng.randint(-9, 9)) for _ in range(deg + 1)]
        else:
            R = int(math.ceil(max(1.0, max(abs(x) for x in xs)))) if rng.random() < 0.7 else 1
            cs = [Fr(rng.randint(-90, 90), 10 * R ** k) for k in range(deg + 1)]
        if cs[-1] == 0: cs[-1] = Fr(1)
        ys = [float(peval(cs, x)) for x in xs]
        return xs, ys, "poly", cs
    if k < 0.7:
        a, w, p = rng.uniform(0.5, 3), rng.uniform(0.3, 1.4), rng.uniform(0, 6)
        ys = [a * math.sin(w * x + p) for x in xs]
        return xs, ys, "sin", None
    if k < 0.85:
        a, b = rng.uniform(-2, 2), rng.uniform(-0.3, 0.3)
        ys = [math.exp(b * x) + a - 1.0 for x in xs]
        return xs, ys, "exp", None
    ys = [rng.uniform(-3, 3) for _ in xs]      # arbitrary ordinates: several sign changes per table
    return xs, ys, "random", None


def shuffled(rng, xs, ys):
    idx = list(range(len(xs))); rng.shuffle(idx)
    return [xs[i] for i in idx], [ys[i] for i in idx]


def fl(v):
    return "[" + ", ".join(repr(x) for x in v) + "]"

REPLAY = ("PYTHONPATH=/repo /venv/bin/python -c \"from pymeeus.Interpolation import Interpolation; "
          "from pymeeus.Angle import Angle; i = Interpolation(%s); print(%s)\"")


# root()/minmax() stop at |y| <= 1e-10 ABSOLUTE: with ordinates of size 1e6 the rounding noise of the Horner
# evaluation (~1e-16 * 1e6) is above that and the loop cannot terminate.  The search examines the root clauses on
# ALL tables and routes exactly that situation to the known-finding key Oracle.NOISE_KEY (envelope:
# Oracle.noise_excused); YMAX_ROOT only keeps the bit-exact correspondence cases away from 1000-iteration runs.
YMAX_ROOT = 1000.0


class Oracle:
    def __init__(self, mods):
        self.I = mods["Interpolation"].Interpolation
        self.Angle = mods["Angle"].Angle
        self.C = mods["Coordinates"]
        self.findings = []
        self.n = 0
        self.nontrivial = 0
        self.samples = []

    def n_other(self):
        return sum(1 for f in self.findings if f["key"] not in (self.NOISE_KEY, self.KNOWN_ANGLE))

    def report(self, key, what, ctor, call, inp):
        # keys that carry an envelope of a recorded finding are kept to a few examples each, so that they can never
        # crowd out (or cut short the search for) anything else
        if key in (self.NOISE_KEY, self.KNOWN_ANGLE) and sum(1 for f in self.findings if f["key"] == key) >= 3:
            return
        if len(self.findings) < 60:
            self.findings.append({"key": key, "what": what, "input": inp, "replay": REPLAY % (ctor, call)})

    # --- clause: passes through every point / polynomial / derivative / order / forms ---------
    def check_values(self, rng, xs, ys, cs):
        I = self.I
        n = len(xs)
        sx, sy = shuffled(rng, xs, ys)
        ctor = "%s, %s" % (fl(sx), fl(sy))
        try:
            it = I(sx, sy)
        except Exception as ex:
            self.report("construct-raises", "Interpolation(%s) raises %r" % (ctor, ex), ctor, "i._x", [sx, sy]); return None
        self.n += 1
        if list(it._x) != list(xs) or list(it._y) != list(ys):
            self.report("order-points", "points supplied in order %s are stored as x=%r y=%r, expected sorted x=%r y=%r"
                        % (sx, it._x, it._y, xs, ys), ctor, "i._x, i._y", [sx, sy]); return None
        P = lagrange_poly(xs, ys)
        D = pderiv(P)
        ymax = max(1.0, max(abs(y) for y in ys))
        # through every point (exactly: the stored ordinate is returned)
        for k in range(n):
            self.n += 1
            try: v = it(xs[k])
            except Exception as ex: v = ex
            if not (isinstance(v, float) or isinstance(v, int)) or v != ys[k]:
                self.report("through-points", "i(%r) = %r but the table has y = %r" % (xs[k], v, ys[k]),
                            ctor, "i(%r)" % xs[k], [sx, sy, xs[k]]); return None
        # points between / next to the nodes
        pts = []
        for k in range(n - 1):
            pts += [xs[k] + (xs[k + 1] - xs[k]) * t for t in (rng.random(), 0.5)]
            pts += [xs[k] + 3e-10, xs[k + 1] - 3e-10]
        pts += [xs[0] + 1e-7, xs[-1] - 1e-7]
        for x in pts:
            if not (xs[0] <= x <= xs[-1]): continue
            self.n += 2
            ref = peval(P, x); scale = Fr(ymax)
            try: v = it(x)
            except Exception as ex: v = ex
            if not isinstance(v, float) or not abs(Fr(v) - ref) <= Fr(1, 10**9) * scale:
                self.report("interpolated-value", "i(%r) = %r, the polynomial through the points gives %.17g"
                            % (x, v, float(ref)), ctor, "i(%r)" % x, [sx, sy, x]); return None
            dref = peval(D, x); dscale = Fr(ymax)
            try: dv = it.derivative(x)
            except Exception as ex: dv = ex
            if not isinstance(dv, float) or not abs(Fr(dv) - dref) <= Fr(1, 10**9) * dscale:
                self.report("derivative-value", "i.derivative(%r) = %r, the derivative of the polynomial through the points is %.17g"
                            % (x, dv, float(dref)), ctor, "i.derivative(%r)" % x, [sx, sy, x]); return None
            if cs is not None:
                # polynomial data of degree < n: the polynomial itself is reproduced
                t = peval(cs, x); ts = Fr(ymax)
                if not abs(Fr(v) - t) <= Fr(1, 10**9) * ts:
                    self.report("polynomial-reproduced", "data from the polynomial %s (degree %d < %d points): i(%r) = %r, polynomial = %.17g"
                                % ([float(c) for c in cs], len(cs) - 1, n, x, v, float(t)), ctor, "i(%r)" % x, [sx, sy, x]); return None
                td = peval(pderiv(cs), x); tds = Fr(ymax)
                if not abs(Fr(dv) - td) <= Fr(1, 10**9) * tds:
                    self.report("polynomial-derivative", "data from the polynomial %s: i.derivative(%r) = %r, exact derivative = %.17g"
                                % ([float(c) for c in cs], x, dv, float(td)), ctor, "i.derivative(%r)" % x, [sx, sy, x]); return None
        for k in range(n):       # derivative at the nodes (used by minmax)
            self.n += 1
            dref = peval(D, xs[k]); dscale = Fr(ymax)
            try: dv = it.derivative(xs[k])
            except Exception as ex: dv = ex
            if not isinstance(dv, float) or not abs(Fr(dv) - dref) <= Fr(1, 10**9) * dscale:
                self.report("derivative-value", "i.derivative(%r) = %r, the derivative of the polynomial through the points is %.17g"
                            % (xs[k], dv, float(dref)), ctor, "i.derivative(%r)" % xs[k], [sx, sy, xs[k]]); return None
        self.nontrivial += 1
        # order independence and input forms: identical object, identical values
        probe = [xs[0] + (xs[-1] - xs[0]) * t for t in (0.137, 0.5, 0.81)]
        base = (list(it._x), list(it._y), [it(p) for p in probe], [it.derivative(p) for p in probe])
        forms = []
        s2x, s2y = shuffled(rng, xs, ys)
        forms.append(("another order", "%s, %s" % (fl(s2x), fl(s2y)), lambda: I(s2x, s2y)))
        forms.append(("reversed order", "%s, %s" % (fl(xs[::-1]), fl(ys[::-1])), lambda: I(xs[::-1], ys[::-1])))
        forms.append(("two tuples", "%r, %r" % (tuple(sx), tuple(sy)), lambda: I(tuple(sx), tuple(sy))))
        forms.append(("list and tuple", "%s, %r" % (fl(sx), tuple(sy)), lambda: I(sx, tuple(sy))))
        inter = [v for p in zip(sx, sy) for v in p]
        forms.append(("interleaved scalars", ", ".join(repr(v) for v in inter), lambda: I(*inter)))
        forms.append(("interleaved scalars + dangling one", ", ".join(repr(v) for v in inter + [99.0]), lambda: I(*(inter + [99.0]))))
        forms.append(("copy constructor", "Interpolation(%s, %s)" % (fl(sx), fl(sy)), lambda: I(I(sx, sy))))
        forms.append(("set() on an empty object", "%s, %s" % (fl(sx), fl(sy)), lambda: self._via_set(sx, sy)))
        forms.append(("longer x list (extra dropped)", "%s, %s" % (fl(sx + [1e6]), fl(sy)), lambda: I(sx + [1e6], sy)))
        if xs == [float(i) for i in range(n)]:
            forms.append(("ordinates only", fl(ys), lambda: I(list(ys))))
        for name, c2, mk in forms:
            self.n += 1
            try:
                o = mk()
                got = (list(o._x), list(o._y), [o(p) for p in probe], [o.derivative(p) for p in probe])
            except Exception as ex:
                got = repr(ex)
            if got != base:
                self.report("input-form", "%s: Interpolation(%s) gives %r, the two-list form gives %r" % (name, c2, got, base),
                            c2, "i._x, i._y, i(%r)" % probe[1], [name, sx, sy]); return None
        # Angle ordinates (what the conjunction helpers pass)
        if self._angle_safe(xs, ys):
            self.n += 1
            try:
                oa = I(sx, [self.Angle(y) for y in sy])
                va = [float(oa(p)) for p in probe]
            except Exception as ex:
                va = repr(ex)
            if not (isinstance(va, list) and all(abs(a - b) <= 1e-9 * ymax for a, b in zip(va, base[2]))):
                self.report("input-form", "Angle ordinates: values %r, floats give %r" % (va, base[2]),
                            "%s, [Angle(y) for y in %s]" % (fl(sx), fl(sy)), "i(%r)" % probe[1], ["angles", sx, sy]); return None
        return it, P, D, ctor

    @staticmethod
    def _angle_safe(xs, ys):
        """Angle arithmetic wraps at 360: use Angle ordinates only where no divided difference and no
        partial Horner sum can come near it"""
        n = len(xs); X = [Fr(x) for x in xs]
        dd = [[Fr(y) for y in ys]]
        for k in range(1, n):
            dd.append([(dd[k - 1][i] - dd[k - 1][i + 1]) / (X[i] - X[i + k]) for i in range(n - k)])
        if max(abs(v) for row in dd for v in row) > 100: return False
        span = X[-1] - X[0]
        return sum(abs(dd[k][0]) * span ** k for k in range(n)) < 300

    def _via_set(self, sx, sy):
        o = self.I(); o.set(sx, sy); return o

    # --- clause: refuses abscissae outside the table and duplicated abscissae ------------------
    def check_refusals(self, rng, xs, ys, it, ctor):
        span = xs[-1] - xs[0]
        outs = [xs[0] - 2e-10, xs[-1] + 2e-10, xs[0] - 1e-6, xs[-1] + 1e-6, xs[0] - span, xs[-1] + span,
                xs[0] - rng.uniform(0, 5) - 1e-9, xs[-1] + rng.uniform(0, 5) + 1e-9, -1e30, 1e30]
        for x in outs:
            for nm, f in (("i(%r)", it.__call__), ("i.derivative(%r)", it.derivative)):
                self.n += 1
                try:
                    v = f(x); bad = "returns %r" % (v,)
                except ValueError: bad = None
                except Exception as ex: bad = "raises %s" % type(ex).__name__
                if bad:
                    self.report("outside-not-refused", "%s %s; the table covers [%r, %r], ValueError expected"
                                % (nm % x, bad, xs[0], xs[-1]), ctor, nm % x, [xs, ys, x]); return
        for x in (math.nextafter(xs[0], -math.inf), math.nextafter(xs[-1], math.inf)):
            self.n += 1
            try:
                v = it.derivative(x); bad = "returns %r" % (v,)
            except ValueError: bad = None
            except Exception as ex: bad = "raises %s" % type(ex).__name__
            if bad:
                self.report("outside-not-refused", "i.derivative(%r) %s; the table covers [%r, %r], ValueError expected"
                            % (x, bad, xs[0], xs[-1]), ctor, "i.derivative(%r)" % x, [xs, ys, x]); return
        # duplicated abscissae
        n = len(xs)
        for eps in (0.0, 5e-11, -5e-11):
            a, b = rng.sample(range(n), 2) if n > 2 else (0, 1)
            dx = list(xs); dx[a] = dx[b] + eps
            d2x, d2y = shuffled(rng, dx, ys)
            inter = [v for p in zip(d2x, d2y) for v in p]
            for name, c2, mk in (("two lists", "%s, %s" % (fl(d2x), fl(d2y)), lambda: self.I(d2x, d2y)),
                                 ("interleaved", ", ".join(map(repr, inter)), lambda: self.I(*inter))):
                self.n += 1
                try:
                    o = mk(); bad = "is accepted (x = %r)" % (o._x,)
                except ValueError: bad = None
                except Exception as ex: bad = "raises %s" % type(ex).__name__
                if bad:
                    self.report("duplicate-not-refused", "Interpolation(%s) with abscissae %r and %r (%s) %s; ValueError expected"
                                % (c2, dx[a], dx[b], name, bad), c2, "i._x", [d2x, d2y]); return

    # --- clause: root / extremum inside [xl, xh] ------------------------------------------------
    def sign_changes(self, P, xs, rng, m=24):
        """grid over the table + nodes; returns sorted sample abscissae with a clear sign of P"""
        g = sorted(set(list(xs) + [xs[0] + (xs[-1] - xs[0]) * k / m for k in range(m + 1)]
                       + [rng.uniform(xs[0], xs[-1]) for _ in range(6)]))
        return [(x, peval(P, x)) for x in g]

    NOISE_KEY = "root-tolerance-below-rounding-noise-large-ordinates"

    def is_zero(self, what, xs, ys, it, Q, r):
        """the clause 'the interpolant (its derivative) vanishes at r to the object's tolerance': the EXACT value of the
        polynomial Q at r is at most get_tolerance() plus the rounding with which the object evaluates it there
        (64 units in the last place of the Horner sums, eval_noise).  The library's documented tolerance semantics
        identify an abscissa closer than the tolerance to a node with that node: r also counts as a zero when it is
        within the tolerance of a node whose (exact) value is a zero in the same sense."""
        tol = Fr(it.get_tolerance())
        if abs(peval(Q, r)) <= tol + 64 * eval_noise(what, xs, ys, Q, r):
            return True
        for t in xs:
            if abs(Fr(r) - Fr(t)) < tol and abs(peval(Q, t)) <= tol + 64 * eval_noise(what, xs, ys, Q, t):
                return True
        return False

    def zero_key(self, what, xs, ys, it, Q, r):
        """key for a returned abscissa that is not a zero to the object's tolerance (minmax() on an object whose tolerance
        was tightened is held to that tolerance like root(): repaired in /repo, prime.set_tolerance(self._tol))"""
        return what + "-not-a-zero"

    def noise_excused(self, what, xs, ys, it, Q, a, b, ex):
        """envelope of the known finding NOISE_KEY: the absolute tolerance (1e-10) is below the rounding noise of the
        object's own evaluation next to large ordinates: the iteration oscillates between neighbouring floats whose
        computed values are all noise, and gives up (or, at a limit whose exact value is smaller than the evaluation error,
        the sign test refuses the interval with 'Invalid interval').  Only if ALL of: the exception is 'Too many iterations'; the
        ordinates (minmax: the nodal derivatives) exceed 1000; and at the zero of the exact polynomial in the interval
        (bisection on exact values down to adjacent floats), among the 17 floats around it, EITHER the object's own
        evaluation is wrong by at least half the tolerance somewhere (measured |computed - exact|: rounding noise)
        OR no float at all has a computed |value| <= tol (the slope is so steep that one unit in the last place of the
        abscissa changes the value by more than the tolerance: the stopping criterion is unreachable in binary64)."""
        big = max(abs(float(peval(Q, t))) for t in xs) if what == "minmax" else max(abs(y) for y in ys)
        # the tolerance that stops the iteration is the object's (minmax() hands it on to its inner object)
        efftol = it.get_tolerance()
        if big <= 1000.0 * (efftol / 1e-10): return False      # 1000 for the default tolerance: the ratio max|y| / tol > 1e13
        if "Invalid interval" in str(ex):
            # same cause seen at a LIMIT: the exact value there is smaller than the error of the object's own evaluation,
            # so the computed sign at the limit is noise and the sign test refuses the interval
            try:
                obj = it if what == "root" else self.I(list(xs), [it.derivative(t) for t in xs])
                return any(abs(Fr(obj(e)) - peval(Q, e)) >= abs(peval(Q, e)) for e in (float(a), float(b)))
            except Exception:
                return False
        if "Too many iterations" not in str(ex): return False
        try:
            obj = it if what == "root" else self.I(list(xs), [it.derivative(t) for t in xs])
            tol = efftol
            lo, hi = float(a), float(b); flo, fhi = peval(Q, lo), peval(Q, hi)
            if flo == 0 or fhi == 0 or (flo > 0) == (fhi > 0): return False
            for _ in range(200):
                mid = 0.5 * (lo + hi)
                if mid <= lo or mid >= hi: break
                fm = peval(Q, mid)
                if fm == 0: lo = hi = mid; break
                if (fm > 0) == (flo > 0): lo, flo = mid, fm
                else: hi = mid
            pts = [lo]
            for _ in range(8):
                pts = [math.nextafter(pts[0], -math.inf)] + pts + [math.nextafter(pts[-1], math.inf)]
            pts = [p for p in pts if xs[0] <= p <= xs[-1]]
            vals = [obj(p) for p in pts]
            noise = max(abs(Fr(v) - peval(Q, p)) for v, p in zip(vals, pts))
            unreachable = all(abs(v) > tol for v in vals)
            return noise >= Fr(tol) / 2 or unreachable
        except Exception:
            return False

    def check_roots(self, rng, xs, ys, it, P, ctor, what, nmax=6, tol=None):
        """what = 'root' (P is the interpolant) or 'minmax' (P is its derivative).  With `tol` the clauses are examined on
        a fresh object whose tolerance was changed with set_tolerance(tol): the residual demanded from a returned
        abscissa follows get_tolerance()."""
        I = self.I
        if tol is not None:
            it = I(list(xs), list(ys)); it.set_tolerance(tol)
            ctor = ctor + "); i.set_tolerance(%r" % tol
        samp = self.sign_changes(P, xs, rng)
        big = max(1.0, max(abs(y) for y in ys))
        clear = [(x, v) for x, v in samp if abs(v) > Fr(1, 10**4)]
        pairs = []
        for i in range(len(clear)):
            for j in range(i + 1, len(clear)):
                if clear[i][1] * clear[j][1] < 0 and clear[j][0] - clear[i][0] > 1e-3:
                    pairs.append((clear[i][0], clear[j][0]))
        rng.shuffle(pairs)
        span = xs[-1] - xs[0]
        done = 0
        for a, b in pairs[:nmax]:
            variants = [(a, b), (b, a)]
            if a == xs[0]: variants += [(a - rng.uniform(0.1, 3), b), (b, a - span), (-1e9, b)]
            if b == xs[-1]: variants += [(a, b + rng.uniform(0.1, 3)), (b + span, a), (a, 1e9)]
            if a == xs[0] and b == xs[-1]: variants += [(0, 0), (a - 1.0, b + 1.0), (b + 1.0, a - 1.0)]
            for xl, xh in variants:
                if xl == 0 and xh == 0 and not (a == xs[0] and b == xs[-1]): continue
                self.n += 1
                call = "i.%s(%r, %r)" % (what, xl, xh)
                try:
                    r = getattr(it, what)(xl, xh)
                except Exception as ex:
                    key = self.NOISE_KEY if self.noise_excused(what, xs, ys, it, P, a, b, ex) else what + "-not-found"
                    self.report(key, "%s raises %s(%s) although the %s is %.3g at %r and %.3g at %r (sign change)"
                                % (call, type(ex).__name__, " ".join(str(ex).split()), "interpolant" if what == "root" else "derivative",
                                   float(peval(P, a)), a, float(peval(P, b)), b), ctor, call, [xs, ys, xl, xh])
                    if key == self.NOISE_KEY: continue
                    return
                if not isinstance(r, (int, float)) or not (a <= r <= b):
                    self.report(what + "-outside-interval", "%s = %r is outside [%r, %r]" % (call, r, a, b), ctor, call, [xs, ys, xl, xh]); return
                res = peval(P, r)
                if not self.is_zero(what, xs, ys, it, P, r):
                    zk = self.zero_key(what, xs, ys, it, P, r)
                    self.report(zk, "%s = %r where the %s is %.3g (not zero to the object's tolerance %r)"
                                % (call, r, "interpolant" if what == "root" else "derivative", float(res), it.get_tolerance()), ctor, call, [xs, ys, xl, xh])
                    return
                done += 1
        if done: self.nontrivial += 1
        # a limit very close to (not at) a zero: |function value| at the limit between tol/10 and 1000 tol.  The
        # 'a limit is already a root' shortcuts must use the OBJECT'S tolerance
        otol = it.get_tolerance()
        for a, b in pairs[:2]:
            lo, hi = float(a), float(b); flo = peval(P, lo)
            for _ in range(80):
                mid = 0.5 * (lo + hi)
                if mid <= lo or mid >= hi: break
                fm = peval(P, mid)
                if fm == 0: lo = hi = mid; break
                if (fm > 0) == (flo > 0): lo, flo = mid, fm
                else: hi = mid
            z = lo; slope = abs(float(peval(pderiv(P), z)))
            if slope < 1e-6 or slope > 1e6: continue
            for fac in (0.1, 0.5, 3.0, 40.0, 1000.0):
                d = fac * otol / slope
                for xl, xh, ea, eb in ((z - d, b, z - d, b), (a, z + d, a, z + d), (b, z - d, z - d, b)):
                    if not (a < xl < b or a < xh < b) or min(xl, xh) < xs[0] or max(xl, xh) > xs[-1]: continue
                    if peval(P, ea) * peval(P, eb) >= 0: continue       # no sign change on this interval: nothing promised
                    self.n += 1
                    call = "i.%s(%r, %r)" % (what, xl, xh)
                    try:
                        r = getattr(it, what)(xl, xh)
                    except Exception as ex:
                        key = self.NOISE_KEY if self.noise_excused(what, xs, ys, it, P, ea, eb, ex) else what + "-not-found"
                        self.report(key, "%s raises %s(%s) although the %s changes sign (a limit lies %.3g tolerances from the zero %r in function value)"
                                    % (call, type(ex).__name__, " ".join(str(ex).split()), "interpolant" if what == "root" else "derivative", fac, z),
                                    ctor, call, [xs, ys, xl, xh])
                        if key == self.NOISE_KEY: continue
                        return
                    if not isinstance(r, (int, float)) or not (ea <= r <= eb):
                        self.report(what + "-outside-interval", "%s = %r is outside [%r, %r]" % (call, r, ea, eb), ctor, call, [xs, ys, xl, xh]); return
                    if not self.is_zero(what, xs, ys, it, P, r):
                        zk = self.zero_key(what, xs, ys, it, P, r)
                        self.report(zk, "%s = %r where the %s is %.3g, tolerance of the object %r (the limit lies %.3g tolerances from the zero in function value)"
                                    % (call, r, "interpolant" if what == "root" else "derivative", float(peval(P, r)), otol, fac),
                                    ctor, call, [xs, ys, xl, xh])
                        return
        # interval without a table point in common / equal limits: must not return anything silly
        self.n += 1
        try:
            if xs[0] + 0.25 * span == 0: raise ValueError("0, 0 means the whole table")
            r = getattr(it, what)(xs[0] + 0.25 * span, xs[0] + 0.25 * span)
            self.report(what + "-equal-limits", "i.%s(x, x) with x = %r returns %r; ValueError documented" % (what, xs[0] + 0.25 * span, r),
                        ctor, "i.%s(%r, %r)" % (what, xs[0] + 0.25 * span, xs[0] + 0.25 * span), [xs, ys])
        except ValueError:
            pass
        except Exception as ex:
            self.report(what + "-equal-limits", "i.%s(x, x) raises %s; ValueError documented" % (what, type(ex).__name__),
                        ctor, "i.%s(%r, %r)" % (what, xs[0] + 0.25 * span, xs[0] + 0.25 * span), [xs, ys])
        # a limit that is itself an exact zero (a tabulated point with ordinate 0): whatever is returned must be a
        # zero inside the interval (the zero at the limit qualifies); a ValueError is accepted
        zeros = [x for x, v in samp if v == 0]
        for z in zeros[:3]:
            others = [x for x, v in clear if abs(x - z) > 1e-3]
            rng.shuffle(others)
            for o in others[:3]:
                for xl, xh in ((z, o), (o, z)):
                    self.n += 1
                    a, b = min(z, o), max(z, o)
                    call = "i.%s(%r, %r)" % (what, xl, xh)
                    try:
                        r = getattr(it, what)(xl, xh)
                    except ValueError:
                        continue
                    except Exception as ex:
                        self.report(what + "-wrong-exception", "%s raises %s" % (call, type(ex).__name__), ctor, call, [xs, ys, xl, xh]); return
                    if not isinstance(r, (int, float)) or not (a <= r <= b) or not self.is_zero(what, xs, ys, it, P, r):
                        self.report(self.zero_key(what, xs, ys, it, P, r) if isinstance(r, (int, float)) and a <= r <= b else what + "-not-a-zero", "%s = %r: not a zero inside the interval (value %.3g there; the limit %r is an exact zero)"
                                    % (call, r, float(peval(P, r)) if isinstance(r, (int, float)) else float("nan"), z), ctor, call, [xs, ys, xl, xh]); return
        # no sign change on a clear interval: a returned value must still be a zero inside the interval
        same = [(clear[i][0], clear[j][0]) for i in range(len(clear)) for j in range(i + 1, len(clear))
                if clear[i][1] * clear[j][1] > 0 and clear[j][0] - clear[i][0] > 1e-3]
        rng.shuffle(same)
        for a, b in same[:2]:
            self.n += 1
            try:
                r = getattr(it, what)(a, b)
            except ValueError:
                continue
            except Exception as ex:
                self.report(what + "-wrong-exception", "i.%s(%r, %r) raises %s" % (what, a, b, type(ex).__name__), ctor,
                            "i.%s(%r, %r)" % (what, a, b), [xs, ys, a, b]); return
            if not (a <= r <= b) or not self.is_zero(what, xs, ys, it, P, r):
                self.report(self.zero_key(what, xs, ys, it, P, r) if a <= r <= b else what + "-not-a-zero", "i.%s(%r, %r) = %r: not a zero inside the interval (value %.3g)"
                            % (what, a, b, r, float(peval(P, r))), ctor, "i.%s(%r, %r)" % (what, a, b), [xs, ys, a, b]); return

    # --- known finding: Angle ordinates make root() iterate on an Angle abscissa ------------------
    KNOWN_ANGLE = "angle-ordinates-newton-derivative-wraps"

    def probe_angle_ordinates(self, rng, full):
        """With Angle ordinates `x = x - y / yp` turns the abscissa into an Angle; derivative(Angle) multiplies
        Angles, which wrap at 360, so the slope is wrong and Newton may creep past max_iter.  Only Angle-ordinate
        tables are reported under this key; float tables never are.  ENVELOPE of the known finding:
        (a) derivative(Angle(x)) differs from derivative(x) only where a wrap is possible (the sum over j of
            prod_{i != j} |x - x_i| of some order exceeds 360) and the wrong value is itself an Angle below 360;
            a mismatch without a possible wrap goes to `angle-ordinates-derivative-mismatch`;
        (b) root() / planet_star_conjunction raise 'Too many iterations' on at most max(3, 5 %) of the random rough probe
            tables (measured after commit edeb4b4: 11 of 2400, at most 2 % per 200) - more goes to the `-gross` key;
        (c) a value that IS returned must be a zero of the interpolant inside the table (else
            `angle-ordinates-wrong-root`; a different zero than the float run finds is fine)."""
        I, A, C = self.I, self.Angle, self.C
        tabs = [[-1.57, -3.0, -1.29, -0.7, -0.33, -0.06, 0.28]]
        for _ in range(20 if not full else 200):
            m = rng.choice([7, 9])
            t = [rng.uniform(-3, -0.2) for _ in range(m - 1)] + [rng.uniform(0.1, 0.5)]
            tabs.append(t)
        raises = []
        for da in tabs:
            m = len(da); h = m // 2; ns = [i - h for i in range(m)]
            self.n += 3
            ctor = "%s, [Angle(a) for a in %s]" % (ns, fl(da))
            try:
                fo = I(ns, da); ao = I(ns, [A(a) for a in da])
                x = 0.5 * (ns[-2] + ns[-1])
                d1, d2 = fo.derivative(x), float(ao.derivative(A(x)))
            except Exception as ex:
                self.report("construct-raises", "Interpolation(%s) raises %r" % (ctor, ex), ctor, "i._x", [ns, da]); continue
            if abs(d1 - d2) > 1e-9 * max(1.0, abs(d1)):
                wrap = max(sum(math.prod(abs(x - ns[i]) for i in range(k) if i != j) for j in range(k)) for k in range(2, m)) > 360.0
                key = self.KNOWN_ANGLE if (wrap and abs(d2) < 360.0) else "angle-ordinates-derivative-mismatch"
                self.report(key, "derivative(Angle(%r)) = %r on Angle ordinates, derivative(%r) = %r on the same float table"
                            % (x, d2, x, d1), ctor, "i.derivative(Angle(%r))" % x, [ns, da])
            try:
                rf = fo.root()
            except ValueError:
                continue        # float table does not converge either: not this finding
            try:
                ra = float(ao.root())
                if not (ns[0] <= ra <= ns[-1]) or abs(fo(ra)) > 1e-9:
                    self.report("angle-ordinates-wrong-root", "root() = %r on Angle ordinates is not a zero of the interpolant (value %r; the float table gives %r)"
                                % (ra, fo(ra) if ns[0] <= ra <= ns[-1] else None, rf), ctor, "i.root()", [ns, da])
            except ValueError as ex:
                if "Too many iterations" in str(ex):
                    raises.append(("root() on Angle ordinates raises ValueError(%s) although the float table gives %r (sign change %r .. %r)"
                                   % (" ".join(str(ex).split()), rf, da[0], da[-1]), ctor, "i.root()", [ns, da]))
                else:
                    self.report("angle-ordinates-root-raises", "root() on Angle ordinates raises ValueError(%s)" % " ".join(str(ex).split()), ctor, "i.root()", [ns, da])
            try:
                n0, _ = C.planet_star_conjunction([A(100.0 + a) for a in da], [A(10.0 + 0.1 * i) for i in range(m)], A(100.0), A(10.0))
            except ValueError as ex:
                if "Too many iterations" in str(ex):
                    raises.append(("planet_star_conjunction with RA differences %r raises ValueError(%s); the float table has its root at %r"
                                   % (da, " ".join(str(ex).split()), rf), ctor, "i.root()", [ns, da]))
                else:
                    self.report("star-conjunction-raises", "planet_star_conjunction with RA differences %r raises ValueError(%s)" % (da, " ".join(str(ex).split())), ctor, "i.root()", [ns, da])
        # share bound on the RANDOM probe tables that raise (the first, fixed table is the recorded example and always
        # does): at most max(3, 5 %) of them - measured rate after edeb4b4 0.5 % (11 of 2400), so 3 of 20 or 10 of 200 are
        # beyond 1e-4 probability
        first = str(tabs[0])
        nraise = len({str(inp[1]) for _, _, _, inp in raises if str(inp[1]) != first})
        bound = max(3, math.ceil(0.05 * (len(tabs) - 1)))
        key = self.KNOWN_ANGLE if nraise <= bound else self.KNOWN_ANGLE + "-gross"
        for what, ctor, call, inp in raises:
            self.report(key, what + (" [%d of %d random probe tables raise, bound %d]" % (nraise, len(tabs) - 1, bound)), ctor, call, inp)

    # --- sequences: a copy and its original must not share mutable state --------------------------
    def check_sequences(self, rng, full):
        """b = Interpolation(a); a.set(other data) (and the reverse, set() with nothing, re-setting the copy):
        afterwards BOTH objects must still pass through their own tables."""
        I = self.I
        def own_table(o, xs, ys):
            """None or a description of how object o fails to represent the table (xs sorted, ys)"""
            try:
                if len(o) != len(xs): return "len() = %r, table has %d points" % (len(o), len(xs))
                if list(o._x) != list(xs) or list(o._y) != list(ys): return "_x = %r, _y = %r" % (o._x, o._y)
                for a, b in zip(xs, ys):
                    v = o(a)
                    if v != b: return "value at node %r is %r, table says %r" % (a, v, b)
                P = lagrange_poly(xs, ys)
                for k in range(len(xs) - 1):
                    m = 0.5 * (xs[k] + xs[k + 1])
                    v = o(m)
                    if not abs(Fr(v) - peval(P, m)) <= Fr(1, 10**9) * Fr(max(1.0, max(abs(t) for t in ys))):
                        return "value at %r is %r, polynomial through its table gives %.17g" % (m, v, float(peval(P, m)))
                    o.derivative(m)
            except Exception as ex:
                return "raises %s(%s)" % (type(ex).__name__, ex)
            return None
        HDR = ("PYTHONPATH=/repo /venv/bin/python -c \"from pymeeus.Interpolation import Interpolation; %s\"")
        for _ in range(40 if not full else 400):
            x1, y1, _, _ = gen_table(rng, rng.randint(2, 7), want="smooth")
            x2, y2, _, _ = gen_table(rng, rng.randint(2, 7), want="smooth")
            s1 = shuffled(rng, x1, y1); s2 = shuffled(rng, x2, y2)
            A1, A2 = "%s, %s" % (fl(s1[0]), fl(s1[1])), "%s, %s" % (fl(s2[0]), fl(s2[1]))
            scen = [
                ("copy then set() on the original",
                 "a = Interpolation(%s); b = Interpolation(a); a.set(%s)" % (A1, A2),
                 lambda: self._seq(lambda a, b: a.set(*s2), s1), (x2, y2), (x1, y1)),
                ("copy then set() on the copy",
                 "a = Interpolation(%s); b = Interpolation(a); b.set(%s)" % (A1, A2),
                 lambda: self._seq(lambda a, b: b.set(*s2), s1), (x1, y1), (x2, y2)),
                ("copy then empty set() on the original",
                 "a = Interpolation(%s); b = Interpolation(a); a.set()" % A1,
                 lambda: self._seq(lambda a, b: a.set(), s1), None, (x1, y1)),
                ("copy then empty set() on the copy",
                 "a = Interpolation(%s); b = Interpolation(a); b.set()" % A1,
                 lambda: self._seq(lambda a, b: b.set(), s1), (x1, y1), None),
                ("set() from another object then re-set that object",
                 "a = Interpolation(%s); b = Interpolation(); b.set(a); a.set(%s); a.set(%s)" % (A1, A2, A1),
                 lambda: self._seq2(s1, s2), (x1, y1), (x1, y1)),
                ("copy, set the original twice, then the copy",
                 "a = Interpolation(%s); b = Interpolation(a); a.set(%s); a.set(%s); b.set(%s)" % (A1, A2, A2, A2),
                 lambda: self._seq(lambda a, b: (a.set(*s2), a.set(*s2), b.set(*s2)), s1), (x2, y2), (x2, y2)),
            ]
            for name, seq, run, wa, wb in scen:
                self.n += 1
                try:
                    a, b = run()
                except Exception as ex:
                    self.findings.append({"key": "copy-shares-state", "what": "%s: the sequence raises %s(%s)" % (name, type(ex).__name__, ex),
                                          "input": seq, "replay": HDR % (seq + "; print(a._x, b._x)")})
                    return
                for nm, o, want in (("a", a, wa), ("b", b, wb)):
                    if want is None:
                        bad = None if (len(o) == 0 and o._x == [] and o._y == []) else "is not empty: _x = %r" % (o._x,)
                    else:
                        bad = own_table(o, want[0], want[1])
                    if bad:
                        self.findings.append({"key": "copy-shares-state",
                                              "what": "%s: afterwards object %s %s (expected its own table x = %r)" % (name, nm, bad, want[0] if want else []),
                                              "input": seq,
                                              "replay": HDR % (seq + "; print(len(a), a._x, a._y, len(b), b._x, b._y); print([a(x) for x in a._x], [b(x) for x in b._x])")})
                        return
                self.nontrivial += 1

    # --- one object used again: evaluate, set() another table in every input form, evaluate ---------
    def check_reuse(self, rng, full):
        """On ONE object: call every evaluator (__call__, derivative, root, minmax with default and explicit limits),
        then set() a different table through every input form (two lists, two tuples, list+tuple, interleaved scalars,
        ordinates only, the copy form from another object), after which the same evaluators must give, bit for bit,
        what a freshly constructed object with the second table gives; likewise evaluator -> set_tolerance ->
        evaluator against a fresh object whose tolerance was set before its first use.  Key `stale-state-after-set`."""
        I = self.I
        def evaluators(o, xs):
            lo, hi = min(xs), max(xs); span = hi - lo
            pts = [lo + span * t for t in (0.0, 0.21, 0.5, 0.83, 1.0)]
            calls = [("i(%r)" % p, lambda p=p: o(p)) for p in pts] + \
                    [("i.derivative(%r)" % p, lambda p=p: o.derivative(p)) for p in pts] + \
                    [("i.root()", lambda: o.root()), ("i.minmax()", lambda: o.minmax()),
                     ("i.root(%r, %r)" % (lo + 0.1 * span, hi - 0.15 * span), lambda: o.root(lo + 0.1 * span, hi - 0.15 * span)),
                     ("i.minmax(%r, %r)" % (lo + 0.1 * span, hi - 0.15 * span), lambda: o.minmax(lo + 0.1 * span, hi - 0.15 * span)),
                     ("i.minmax(%r, %r)" % (hi, lo + 0.3 * span), lambda: o.minmax(hi, lo + 0.3 * span)),
                     ("len(i)", lambda: len(o)), ("i.get_tolerance()", lambda: o.get_tolerance())]
            out = []
            for name, f in calls:
                try: out.append((name, repr(f())))
                except Exception as ex: out.append((name, type(ex).__name__))
            return out
        HDR = "PYTHONPATH=/repo /venv/bin/python -c \"from pymeeus.Interpolation import Interpolation; %s\""
        for _ in range(12 if not full else 120):
            n1, n2 = rng.randint(3, 7), rng.randint(3, 7)
            x1, y1, _, _ = gen_table(rng, n1, want="smooth")
            if rng.random() < 0.5:
                x2 = [float(k) for k in range(n2)]                     # allows the ordinates-only form
                y2 = [math.sin(0.9 * k + rng.uniform(0, 3)) * rng.uniform(0.5, 3) for k in range(n2)]
            else:
                x2, y2, _, _ = gen_table(rng, n2, want="smooth")
            s2x, s2y = shuffled(rng, x2, y2)
            A1 = "%s, %s" % (fl(x1), fl(y1))
            forms = [("two lists", "%s, %s" % (fl(s2x), fl(s2y)), lambda: (list(s2x), list(s2y))),
                     ("two tuples", "%r, %r" % (tuple(s2x), tuple(s2y)), lambda: (tuple(s2x), tuple(s2y))),
                     ("list and tuple", "%s, %r" % (fl(s2x), tuple(s2y)), lambda: (list(s2x), tuple(s2y))),
                     ("interleaved scalars", ", ".join(repr(v) for p in zip(s2x, s2y) for v in p),
                      lambda: tuple(v for p in zip(s2x, s2y) for v in p)),
                     ("copy form", "Interpolation(%s, %s)" % (fl(s2x), fl(s2y)), lambda: (I(list(s2x), list(s2y)),))]
            if x2 == [float(k) for k in range(n2)]:
                forms.append(("ordinates only", fl(y2), lambda: (list(y2),)))
            for name, argtxt, mk in forms:
                self.n += 1
                seq = "i = Interpolation(%s); i.root(); i.minmax(); i(%r); i.derivative(%r); i.set(%s)" % (A1, x1[0], x1[0], argtxt)
                try:
                    m = I(list(x1), list(y1)); evaluators(m, x1)
                    m.set(*mk())
                    got = evaluators(m, x2)
                    fresh = I(*mk()); want = evaluators(fresh, x2)
                except Exception as ex:
                    self.findings.append({"key": "stale-state-after-set", "what": "%s: the sequence raises %s(%s)" % (name, type(ex).__name__, ex),
                                          "input": seq, "replay": HDR % (seq + "; print(i._x)")}); return
                bad = [(a[0], a[1], b[1]) for a, b in zip(got, want) if a != b]
                if bad:
                    c, g, w = bad[0]
                    self.findings.append({"key": "stale-state-after-set",
                                          "what": "after evaluating on one table and set() of another one (%s), %s = %s; a freshly constructed object gives %s" % (name, c, g, w),
                                          "input": seq, "replay": HDR % (seq + "; print(%s)" % c)}); return
                self.nontrivial += 1
            # evaluator -> set_tolerance -> evaluator
            for t in (1e-6, 1e-13):
                self.n += 1
                seq = "i = Interpolation(%s); i.root(); i.minmax(); i.set_tolerance(%r)" % (A1, t)
                try:
                    m = I(list(x1), list(y1)); evaluators(m, x1); m.set_tolerance(t); got = evaluators(m, x1)
                    fresh = I(list(x1), list(y1)); fresh.set_tolerance(t); want = evaluators(fresh, x1)
                except Exception as ex:
                    self.findings.append({"key": "stale-state-after-set", "what": "set_tolerance: the sequence raises %s(%s)" % (type(ex).__name__, ex),
                                          "input": seq, "replay": HDR % (seq + "; print(i._x)")}); return
                bad = [(a[0], a[1], b[1]) for a, b in zip(got, want) if a != b]
                if bad:
                    c, g, w = bad[0]
                    self.findings.append({"key": "stale-state-after-set",
                                          "what": "after evaluating and then set_tolerance(%r), %s = %s; an object whose tolerance was set before its first use gives %s" % (t, c, g, w),
                                          "input": seq, "replay": HDR % (seq + "; print(%s)" % c)}); return

    def _seq(self, act, s1):
        a = self.I(list(s1[0]), list(s1[1])); b = self.I(a); act(a, b); return a, b

    def _seq2(self, s1, s2):
        a = self.I(list(s1[0]), list(s1[1])); b = self.I(); b.set(a); a.set(*s2); a.set(*s1); return a, b

    # --- clause: conjunction helpers ------------------------------------------------------------
    def check_clients(self, rng, full):
        A, C = self.Angle, self.C
        def lag(ns, vs, t):
            s = 0.0
            for i, ni in enumerate(ns):
                w = vs[i]
                for j, nj in enumerate(ns):
                    if j != i: w *= (t - nj) / (ni - nj)
                s += w
            return s
        reps = 60 if not full else 600
        for _ in range(reps):
            m = rng.choice([3, 4, 5, 6, 7])
            used = m if m % 2 == 1 else m - 1
            h = used // 2
            ns = [i - h for i in range(used)]
            # planet 1 moves across planet 2 in right ascension
            a0, d0 = rng.uniform(20, 330), rng.uniform(-60, 60)
            v1, off, v2, acc = rng.uniform(0.2, 1.0), rng.uniform(-0.3, 0.3), rng.uniform(-0.1, 0.1), rng.uniform(-0.02, 0.02)
            ra1 = [a0 + v1 * (i - m / 2 + off) + acc * i * i + 0.002 * math.sin(1.3 * i) for i in range(m)]
            ra2 = [a0 + v2 * (i - m / 2) for i in range(m)]
            de1 = [d0 + 0.3 * i - 0.02 * i * i for i in range(m)]
            de2 = [d0 + rng.uniform(1, 3) - 0.1 * i for i in range(m)]
            da = [float(A(ra1[i]) - A(ra2[i])) for i in range(used)]
            dd = [float(A(de1[i]) - A(de2[i])) for i in range(used)]
            expr = ("planetary_conjunction([Angle(a) for a in %s], [Angle(a) for a in %s], [Angle(a) for a in %s], [Angle(a) for a in %s])"
                    % (fl(ra1), fl(de1), fl(ra2), fl(de2)))
            rp = ("PYTHONPATH=/repo /venv/bin/python -c \"from pymeeus.Coordinates import *; from pymeeus.Angle import Angle; print(%s)\"" % expr)
            if da[0] * da[-1] < 0 and min(abs(da[0]), abs(da[-1])) > 1e-3:
                self.n += 1
                try:
                    n0, sep = C.planetary_conjunction([A(a) for a in ra1], [A(a) for a in de1], [A(a) for a in ra2], [A(a) for a in de2])
                    n0 = float(n0)
                    if not (-h <= n0 <= h) or abs(lag(ns, da, n0)) > 1e-9:
                        self.findings.append({"key": "conjunction-time", "what": "planetary_conjunction returns n = %r where the interpolated RA difference is %.3g (table n = %r, dRA = %r)"
                                              % (n0, lag(ns, da, n0) if -h <= n0 <= h else float("nan"), ns, da), "input": [ra1, de1, ra2, de2], "replay": rp})
                    elif abs(float(sep) - lag(ns, dd, n0)) > 1e-9:
                        self.findings.append({"key": "conjunction-declination", "what": "planetary_conjunction declination difference %r, interpolated difference at n = %r is %r"
                                              % (float(sep), n0, lag(ns, dd, n0)), "input": [ra1, de1, ra2, de2], "replay": rp})
                    else:
                        self.nontrivial += 1
                except Exception as ex:
                    self.findings.append({"key": "conjunction-raises", "what": "planetary_conjunction raises %r although the RA difference changes sign (%r)" % (ex, da),
                                          "input": [ra1, de1, ra2, de2], "replay": rp})
            # planet - star
            sa, sd = ra1[0] + (ra1[used - 1] - ra1[0]) * rng.uniform(0.15, 0.85), d0 + rng.uniform(-1, 1)
            da = [float(A(ra1[i]) - A(sa)) for i in range(used)]
            dd = [float(A(de1[i]) - A(sd)) for i in range(used)]
            expr = "planet_star_conjunction([Angle(a) for a in %s], [Angle(a) for a in %s], Angle(%r), Angle(%r))" % (fl(ra1), fl(de1), sa, sd)
            rp = ("PYTHONPATH=/repo /venv/bin/python -c \"from pymeeus.Coordinates import *; from pymeeus.Angle import Angle; print(%s)\"" % expr)
            if da[0] * da[-1] < 0 and min(abs(da[0]), abs(da[-1])) > 1e-3:
                self.n += 1
                try:
                    n0, sep = C.planet_star_conjunction([A(a) for a in ra1], [A(a) for a in de1], A(sa), A(sd))
                    n0 = float(n0)
                    if not (-h <= n0 <= h) or abs(lag(ns, da, n0)) > 1e-9 or abs(float(sep) - lag(ns, dd, n0)) > 1e-9:
                        self.findings.append({"key": "star-conjunction-time", "what": "planet_star_conjunction returns (%r, %r); interpolated RA difference there %.3g, declination difference %r"
                                              % (n0, float(sep), lag(ns, da, min(max(n0, -h), h)), lag(ns, dd, min(max(n0, -h), h))), "input": [ra1, de1, sa, sd], "replay": rp})
                    else:
                        self.nontrivial += 1
                except Exception as ex:
                    self.findings.append({"key": "star-conjunction-raises", "what": "planet_star_conjunction raises %r although the RA difference changes sign (%r)" % (ex, da),
                                          "input": [ra1, de1, sa, sd], "replay": rp})
            # planet in line with two stars
            s1a, s1d = a0 - rng.uniform(4, 8), d0 + rng.uniform(6, 10)
            k = rng.uniform(0.2, 0.8) * (used - 1)
            pa = ra1[int(k)] + (ra1[int(k) + 1] - ra1[int(k)]) * (k - int(k))
            pd = de1[int(k)] + (de1[int(k) + 1] - de1[int(k)]) * (k - int(k))
            s2a, s2d = s1a + 0.5 * (pa - s1a), s1d + 0.5 * (pd - s1d) + rng.uniform(-0.01, 0.01)
            def straight(a1, d1, a2, d2, a3, d3):
                a1, d1, a2, d2, a3, d3 = [math.radians(v) for v in (a1, d1, a2, d2, a3, d3)]
                return math.tan(d1) * math.sin(a2 - a3) + math.tan(d2) * math.sin(a3 - a1) + math.tan(d3) * math.sin(a1 - a2)
            dx = [straight(ra1[i], de1[i], s1a, s1d, s2a, s2d) for i in range(used)]
            expr = "planet_stars_in_line([Angle(a) for a in %s], [Angle(a) for a in %s], Angle(%r), Angle(%r), Angle(%r), Angle(%r))" % (fl(ra1), fl(de1), s1a, s1d, s2a, s2d)
            rp = ("PYTHONPATH=/repo /venv/bin/python -c \"from pymeeus.Coordinates import *; from pymeeus.Angle import Angle; print(%s)\"" % expr)
            if dx[0] * dx[-1] < 0 and min(abs(dx[0]), abs(dx[-1])) > 1e-6:
                self.n += 1
                try:
                    n0 = float(C.planet_stars_in_line([A(a) for a in ra1], [A(a) for a in de1], A(s1a), A(s1d), A(s2a), A(s2d)))
                    if not (-h <= n0 <= h) or abs(lag(ns, dx, n0)) > 1e-9:
                        self.findings.append({"key": "in-line-time", "what": "planet_stars_in_line returns n = %r where the interpolated alignment expression is %.3g (table %r)"
                                              % (n0, lag(ns, dx, min(max(n0, -h), h)), dx), "input": [ra1, de1, s1a, s1d, s2a, s2d], "replay": rp})
                    else:
                        self.nontrivial += 1
                except Exception as ex:
                    self.findings.append({"key": "in-line-raises", "what": "planet_stars_in_line raises %r although the alignment expression changes sign (%r)" % (ex, dx),
                                          "input": [ra1, de1, s1a, s1d, s2a, s2d], "replay": rp})
            # minimum angular separation (three instants): n makes u u' + v v' vanish (Meeus ch. 18)
            b1 = [(a0 + 0.4 * (i - 1) + rng.uniform(-0.05, 0.05), d0 + 0.3 - 0.25 * (i - 1) + rng.uniform(-0.02, 0.02)) for i in range(3)]
            b2 = [(a0 + 0.05 * (i - 1) + rng.uniform(-0.1, 0.1), d0 + 0.05 * (i - 1)) for i in range(3)]
            def uv(p1, p2):
                d1 = math.radians(p1[1]); dA = math.radians(p2[0]) - math.radians(p1[0]); dD = math.radians(p2[1]) - math.radians(p1[1])
                kk = 206264.8062 / (1.0 + math.sin(d1) ** 2 * math.tan(dA) * math.tan(dA / 2.0))
                return (-kk * (1.0 - math.tan(d1) * math.sin(dD)) * math.cos(d1) * math.tan(dA),
                        kk * (math.sin(dD) + math.sin(d1) * math.cos(d1) * math.tan(dA) * math.tan(dA / 2.0)))
            U = [uv(b1[i], b2[i]) for i in range(3)]
            def q(n, y):   # Meeus 3.3 and its derivative
                a, b = y[1] - y[0], y[2] - y[1]
                return y[1] + n * (a + b + n * (b - a)) / 2.0, (a + b) / 2.0 + n * (b - a)
            args = [v for i in range(3) for v in b1[i]] + [v for i in range(3) for v in b2[i]]
            expr = "minimum_angular_separation(*[Angle(a) for a in %s])" % fl(args)
            rp = ("PYTHONPATH=/repo /venv/bin/python -c \"from pymeeus.Coordinates import *; from pymeeus.Angle import Angle; print(%s)\"" % expr)
            self.n += 1
            try:
                n0, dist = C.minimum_angular_separation(*[A(a) for a in args])
                u, up = q(n0, [w[0] for w in U]); v, vp = q(n0, [w[1] for w in U])
                step = abs(u * up + v * vp) / (up * up + vp * vp)
                if abs(n0) <= 1.0:
                    if step > 1e-5 or abs(float(dist) * 3600.0 - math.sqrt(u * u + v * v)) > 1e-3 * max(1.0, math.sqrt(u * u + v * v)):
                        self.findings.append({"key": "minimum-separation", "what": "minimum_angular_separation returns n = %r, d = %r arcsec; Newton correction there %.3g (> 1e-5), interpolated distance %r arcsec"
                                              % (n0, float(dist) * 3600.0, step, math.sqrt(u * u + v * v)), "input": args, "replay": rp})
                    else:
                        self.nontrivial += 1
            except Exception as ex:
                self.findings.append({"key": "minimum-separation-raises", "what": "minimum_angular_separation raises %r" % (ex,), "input": args, "replay": rp})


def search(rng, tier, deep):
    mods = load(["Angle", "Interpolation", "Coordinates"])
    O = Oracle(mods)
    full = deep or tier == "thorough"
    ntab = 2500 if full else 260
    kinds = {}
    for t in range(ntab):
        n = 2 + t % 8
        xs, ys, kind, cs = gen_table(rng, n)
        if t % 6 == 5 and n >= 3 and cs is None:
            # a tabulated point with ordinate exactly 0: a root at a node, reachable as an interval limit
            ys = list(ys); ys[rng.randrange(n)] = 0.0; kind = kind + "+zero-node"
        kinds[kind] = kinds.get(kind, 0) + 1
        r = O.check_values(rng, xs, ys, cs)
        if r is None:
            if O.n_other() >= 40: break
            continue
        it, P, D, ctor = r
        O.check_refusals(rng, xs, ys, it, ctor)
        # the root / extremum clauses run on EVERY table (the property's quantifier has no bound on the ordinates)
        O.check_roots(rng, xs, ys, it, P, ctor, "root")
        if n >= 3:
            O.check_roots(rng, xs, ys, it, D, ctor, "minmax")
        if t % 3 == 1:
            # ... and on objects with a non-default tolerance: 'vanishes (to the object's tolerance)'
            otol = (1e-13, 1e-12, 1e-8, 1e-6)[(t // 3) % 4]
            O.check_roots(rng, xs, ys, it, P, ctor, "root", nmax=3, tol=otol)
            if n >= 3:
                O.check_roots(rng, xs, ys, it, D, ctor, "minmax", nmax=3, tol=otol)
        if O.n_other() >= 40: break
    # documented examples
    I = O.I
    for ctor, call, want in (("[7, 8, 9], [0.884226, 0.877366, 0.870531]", "round(i(8.18125), 6)", 0.876125),
                             ("[-1.0, 0.0, 1.0], [-2.0, 3.0, 2.0]", "round(i.root(), 8)", -0.72075922),
                             ("[-1.0, 0.0, 1.0], [-2.0, 3.0, 2.0]", "round(i.minmax(), 8)", 0.33333333),
                             ("[-1.0, 0.0, 1.0], [-2.0, 3.0, 2.0]", "i.derivative(0.5)", -1.0),
                             ("[29.43, 30.97, 27.69, 28.11, 31.58, 33.05], [0.4913598528, 0.5145891926, 0.4646875083, 0.4711658342, 0.5236885653, 0.5453707057]",
                              "round(i(30.0), 8)", 0.5)):
        O.n += 1
        try:
            got = eval("(lambda i: %s)(I(%s))" % (call, ctor), {"I": I})
        except Exception as ex:
            got = repr(ex)
        if got != want:
            O.report("documented-example", "Interpolation(%s): %s = %r, documented %r" % (ctor, call, got, want), ctor, call, [ctor, call])
    O.check_clients(rng, full)
    O.check_sequences(rng, full)
    O.check_reuse(rng, full)
    O.probe_angle_ordinates(rng, full)
    stats = {"evaluations": O.n, "distinct_nontrivial": O.nontrivial,
             "rule": ("%d tables of 2-9 points (equal / dyadic / arbitrary spacing; data: %s), each supplied shuffled and in every input form; "
                      "values and derivatives compared with the exact (Fraction) Lagrange polynomial to 1e-9 relative to max(1, max|y|) between and next to the nodes; "
                      "ValueError outside the table (incl. 2e-10 beyond the ends) and for duplicated abscissae; root()/minmax() on up to 6 "
                      "sign-changing sub-intervals per table in both orientations and with out-of-table limits: result inside the clamped interval, "
                      "exact polynomial (resp. derivative) zero there to the object's tolerance (1e-10) plus the rounding of its own evaluation, on ALL tables; the four Coordinates helpers against an independent Lagrange interpolation; call sequences (copy, then set() on either object) after which both objects must still represent their own tables; evaluate - set() another table in every input form / set_tolerance - evaluate against a fresh object, bit for bit; root/minmax clauses also on objects with tolerance 1e-13, 1e-12, 1e-8, 1e-6 incl. limits within [tol/10, 1000 tol] of a zero")
                     % (ntab, ", ".join("%s %d" % kv for kv in sorted(kinds.items()))),
             "samples": [{"input": "Interpolation([-1.0, 0.0, 1.0], [-2.0, 3.0, 2.0]).root()", "checked": "-0.72075922 inside [-1, 1], P(root) = 0 to 1e-9"}],
             "exhaustive_search": False}
    return O.findings, stats


# ----------------------------------------------------------------------------------------------
# correspondence cases (model vs implementation, bit exact)
# ----------------------------------------------------------------------------------------------

def _num(rng, v):
    """sometimes write an integral float as an int literal (the class accepts both)"""
    if float(v).is_integer() and abs(v) < 1e6 and rng.random() < 0.3:
        return repr(int(v))
    return repr(v)

def cases(rng, tier):
    n = 40 if tier == "quick" else 300
    cs = []
    for t in range(n):
        m = 2 + t % 8
        xs, ys, kind, _ = gen_table(rng, m)
        if max(abs(y) for y in ys) > YMAX_ROOT:
            xs, ys, kind, _ = gen_table(rng, m, want="smooth")
        sx, sy = shuffled(rng, xs, ys)
        X = "[" + ", ".join(_num(rng, v) for v in sx) + "]"
        Y = "[" + ", ".join(_num(rng, v) for v in sy) + "]"
        two = "Interpolation(%s, %s)" % (X, Y)
        inter = "Interpolation(%s)" % ", ".join("%s, %s" % (_num(rng, a), _num(rng, b)) for a, b in zip(sx, sy))
        obj = rng.choice([two, two, inter, "Interpolation(%s)" % two, "Interpolation(tuple(%s), %s)" % (X, Y)])
        span = xs[-1] - xs[0]
        x = xs[0] + span * rng.random()
        cs.append(obj)
        cs.append("%s(%r)" % (obj, x))
        cs.append("%s(%s)" % (two, _num(rng, rng.choice(xs))))
        cs.append("%s.derivative(%r)" % (two, x))
        cs.append("%s.derivative(%s)" % (inter, _num(rng, rng.choice(xs))))
        cs.append("%s(%r)" % (two, rng.choice([xs[0] - 2e-10, xs[-1] + 2e-10, xs[0] - 5e-11, xs[-1] + 5e-11, xs[-1] + span, xs[0] - 1.0])))
        cs.append("%s.derivative(%r)" % (two, rng.choice([math.nextafter(xs[0], -math.inf), math.nextafter(xs[-1], math.inf), xs[-1] + 1.0])))
        a, b = sorted([xs[0] + span * rng.random(), xs[0] + span * rng.random()])
        lims = rng.choice([(a, b), (b, a), (xs[0] - 1.0, b), (a, xs[-1] + 2.0), (0, 0), (xs[0], xs[-1]), (xs[-1] + 3.0, a), (a, a), (xs[-1] + 1.0, xs[-1] + 2.0)])
        cs.append("%s.root(%s, %s)" % (two, _num(rng, lims[0]), _num(rng, lims[1])))
        cs.append("%s.root()" % obj)
        if m >= 3:
            cs.append("%s.minmax(%s, %s)" % (two, _num(rng, lims[0]), _num(rng, lims[1])))
            cs.append("%s.minmax()" % obj)
        cs.append("%s.root(%r, %r, 3)" % (two, xs[0], xs[-1]))
        dx = list(sx); dx[0] = dx[-1] + rng.choice([0.0, 5e-11, -5e-11, 2e-10])
        cs.append("Interpolation([%s], %s)" % (", ".join(repr(v) for v in dx), Y))
    cs += ["Interpolation()", "Interpolation(1.0)", "Interpolation([3.0])", "Interpolation([3, -8, 1, 12, 2, 5, 8])",
           "Interpolation(3, -8, 1, 12, 2, 5, 8)", "Interpolation(1, 2, 3)", "Interpolation(1, 2)", "Interpolation([1, 2], 3)",
           "Interpolation('a')", "Interpolation([5, 3, 6, 1, 2, 4, 9], [10, 6, 12, 2, 4, 8])", "Interpolation(1.0, 2.0, 'x', 4.0)",
           "Interpolation([1.0, 2.0], [3.0, 4.0])('x')", "Interpolation([1.0, 2.0], [3.0, 4.0]).derivative(None)",
           "Interpolation([1.0, 2.0], [3.0, 4.0]).root('a', 2)", "Interpolation()(1.0)",
           "Interpolation([-1.0, 0.0, 1.0], [-2.0, 3.0, 2.0]).root()", "Interpolation([-1.0, 0.0, 1.0], [-2.0, 3.0, 2.0]).minmax()",
           "Interpolation([7, 8, 9], [0.884226, 0.877366, 0.870531])(8.18125)",
           "Interpolation([27.0, 27.5, 28.0, 28.5, 29.0], [Angle(0, 54, 36.125), Angle(0, 54, 24.606), Angle(0, 54, 15.486), Angle(0, 54, 8.694), Angle(0, 54, 4.133)])(28.278)",
           "Interpolation([-1, 0, 1], [Angle(-2.0), Angle(3.0), Angle(2.0)]).root()", "Interpolation([-1, 0, 1], [Angle(-2.0), Angle(3.0), Angle(2.0)]).minmax()",
           "Interpolation([-2, -1, 0, 1, 2], [Angle(-2.0), Angle(-1.5), Angle(0.5), Angle(1.0), Angle(2.5)]).derivative(Angle(0.5))",
           "Interpolation([1.0, 2.0, 3.0], [1.0, -1.0, 2.0]).root(1.0, 2.0)", "Interpolation([1.0, 2.0, 3.0], [1.0, -1.0, 2.0]).root(2.0, 3.0)",
           "Interpolation([1.0, 2.0, 3.0], [1.0, -1.0, 2.0]).root(3.0, 2.0)", "Interpolation([1.0, 2.0, 3.0], [1.0, -1.0, 2.0]).root(1.0, 1.5)",
           "Interpolation([1.0, 2.0, 3.0], [0.0, -1.0, 2.0]).root(1.0, 2.0)", "Interpolation([1.0, 2.0, 3.0], [1.0, 0.0, 2.0]).root(1.0, 2.0)"]
    # the Coordinates helpers
    def angs(v): return "[" + ", ".join("Angle(%r)" % a for a in v) + "]"
    for _ in range(6 if tier == "quick" else 40):
        m = rng.choice([3, 4, 5, 6])
        a0, d0 = rng.uniform(20, 330), rng.uniform(-60, 60)
        v1, off, v2, acc = rng.uniform(0.2, 1.0), rng.uniform(-0.3, 0.3), rng.uniform(-0.1, 0.1), rng.uniform(-0.02, 0.02)
        ra1 = [a0 + v1 * (i - m / 2 + off) + acc * i * i for i in range(m)]
        ra2 = [a0 + v2 * (i - m / 2) for i in range(m)]
        de1 = [d0 + 0.3 * i - 0.02 * i * i for i in range(m)]
        de2 = [d0 + rng.uniform(1, 3) - 0.1 * i for i in range(m)]
        cs.append("planetary_conjunction(%s, %s, %s, %s)" % (angs(ra1), angs(de1), angs(ra2), angs(de2)))
        cs.append("planet_star_conjunction(%s, %s, Angle(%r), Angle(%r))" % (angs(ra1), angs(de1), ra1[1] + 0.3 * (ra1[-1] - ra1[1]), d0))
        cs.append("planet_stars_in_line(%s, %s, Angle(%r), Angle(%r), Angle(%r), Angle(%r))"
                  % (angs(ra1), angs(de1), a0 - 6.0, d0 + 8.0, a0 - 3.0 + rng.uniform(-0.3, 0.3), d0 + 4.2))
        b1 = [(a0 + 0.4 * (i - 1), d0 + 0.3 - 0.25 * (i - 1)) for i in range(3)]
        b2 = [(a0 + 0.05 * (i - 1) + rng.uniform(-0.1, 0.1), d0 + 0.05 * (i - 1)) for i in range(3)]
        cs.append("minimum_angular_separation(%s)" % ", ".join("Angle(%r)" % v for p in b1 + b2 for v in p))
    cs += ["planetary_conjunction([Angle(1.0), Angle(2.0)], [Angle(1.0), Angle(2.0)], [Angle(1.0), Angle(2.0)], [Angle(1.0), Angle(2.0)])",
           "planetary_conjunction(1, 2, 3, 4)"]
    return cs
