"""C10 — UTC <-> TT offset follows the IERS leap-second history and inverts."""
import math
from vlib import common as K, calref as R
from vlib.impl import load

ID = "C10"
MODULES = K.mods("base", "Angle", "Epoch")
REQUIRED = ["iint", "Epoch.__init__", "Epoch.set", "Epoch._compute_jde", "Epoch._check_values",
            "Epoch.get_date", "Epoch.get_doy", "Epoch.doy2date", "Epoch.is_leap", "Epoch.is_julian",
            "Epoch.leap_seconds", "Epoch.get_last_leap_second", "Epoch.tt2ut"]
THEOREMS = ["C10_leap_table", "C10_leap_monotone", "C10_leap_constant", "C10_utc_offset", "C10_utc_readback",
            "C10_override_zero_refuted", "C10_override_partial", "C10_deltat_near", "C10_deltat_joints", "C10_deltat_joints_monthly",
            "C10_deltat_finite", "C10_deltat_pow_segment"]
PROOF_TIMEOUT = {"quick": 1500, "thorough": 3000}
EXHAUSTIVE = True
MANIFEST = {
    "category": "proof",
    "text": "T1: the regenerated binary64 model of Epoch.leap_seconds, Epoch(..., utc=True / leap_seconds=L), get_date(utc=True / leap_seconds=L) and tt2ut is evaluated by the Coq kernel over the property's whole finite quantifier (every month 1950..2100 x days 1/15/last x 0h/12h/23:59:59 x overrides 1..60; every (year, month) -2000..3000 for Delta-T) against the IERS Bulletin C list written as an independent literal (Spec.IERS) and the independent day count; leap_seconds=0 is formally refuted (known finding); bit-exact correspondence model vs implementation every run; the Python oracle re-runs the full quantifier on the implementation.",
    "technique": "kernel computation over the full finite domain (vm_compute reflection, 16 shards) + independent IERS/day-count specs with lemmas for all integers + generated model + bit-exact differential correspondence + exhaustive oracle search",
    "design_ref": "8/C10",
}
EXPLANATION = ("leap_seconds(y, m), Epoch(y,m,d,h,mi,s, utc=True), its get_date(utc=True), the same with leap_seconds=L "
               "(L = 1..60) and tt2ut of the model regenerated from /repo are evaluated by the Coq kernel on EVERY element of "
               "the property's quantifier (151 x 12 months x 3 days x 3 times x 61 keyword sets, 16 shards) against Spec.IERS "
               "(27 insertion dates from IERS Bulletin C, proved monotone/constant for all integers) and Spec.CalSpec.jdn, "
               "and lifted to forall-statements with the bounds in the statement.")
CLAUSES = {
    "leap_seconds(y, m) = IERS count for every (y, m) 1950..2100": "proved [B64, kernel computation over the full domain]",
    "count non-decreasing, 0..27, constant from 2017-01, zero before 1972-07": "proved [B64 bridging + spec lemmas for all integers]",
    "get_last_leap_second() = (2016, 12, 31.0, 27)": "proved [B64]",
    "utc=True adds 32.184+10+count s from 1972-01-01 on (to 1e-4 s) and exactly nothing before, full domain": "proved [B64, full domain]",
    "get_date(utc=True) returns the civil date and time to 1 ms (as an instant), full domain": "proved [B64, full domain]",
    "explicit leap_seconds=L replaces the table value in both directions, L in 1..60, full domain": "proved [B64, full domain]",
    "explicit leap_seconds=0 means zero leap seconds": "refuted: witness Epoch(2000,1,1,0,0,0,utc=True,leap_seconds=0) == Epoch(2000,1,1,0,0,0) (C10_override_zero_refuted; known finding leap-seconds-zero-override-disables-correction)",
    "Delta-T within 3.5 s of 42.184+count for the 564 months 1972..2018": "proved [B64, full domain]",
    "Delta-T jump < 1 s at the joints -500, 500, 1600, 1700, 1800, 1860, 1900, 1920, 1941, 1961, 1986, 2005 (both sides evaluated)": "proved [B64]",
    "Delta-T jump < 1 s at the joints after -500 on the (year, month) grid: January of the joint year against December of the year before":
        "proved [B64, joints 500..2005: C10_deltat_joints_monthly]; 2050 and 2150 searched (libm pow)",
    "Delta-T jump < 1 s at the joints 2050 and 2150 (one side uses libm pow)": "proved [B64 for every pow value within 1 ulp of x*x (C10_deltat_pow_segment)]; the running libm is checked to satisfy that by the search",
    "Delta-T finite for every (year, month) -2000..3000 outside 2050..2149": "proved [B64, full domain]",
    "Delta-T finite for 2050..2149 (segment calls libm pow)": "proved [B64 for every pow value within 1 ulp of x*x]; searched in full on the implementation",
    "get_date(utc=True / leap_seconds=L) inverts an independently built TT instant (not only its own constructor)": "unproved (searched): full domain on the implementation",
    "local=True (wall clock, Epoch.utc2local)": "unproved (not modelled): outside the property",
}


def proof_files(tier):
    return (["C10_defs.v"] + ["C10_shard_%02d.v" % k for k in range(16)]
            + ["C10_dt.v", "C10_pow.v", "C10_main.v", "C10.v"])


# ---- the IERS Bulletin C list (same literal as Spec.IERS; NOT taken from pymeeus)
IERS = [(1972, 7), (1973, 1), (1974, 1), (1975, 1), (1976, 1), (1977, 1), (1978, 1), (1979, 1), (1980, 1),
        (1981, 7), (1982, 7), (1983, 7), (1985, 7), (1988, 1), (1990, 1), (1991, 1), (1992, 7), (1993, 7),
        (1994, 7), (1996, 1), (1997, 7), (1999, 1), (2006, 1), (2009, 1), (2012, 7), (2015, 7), (2017, 1)]
TIMES = [(0, 0, 0), (12, 0, 0), (23, 59, 59)]
JOINTS = [-500, 500, 1600, 1700, 1800, 1860, 1900, 1920, 1941, 1961, 1986, 2005, 2050, 2150]
KNOWN_ZERO = "leap-seconds-zero-override-disables-correction"


def iers_count(y, m):
    return sum(1 for d in IERS if d <= (y, m))


def offset(y, m, L=None):
    """TT - UTC in seconds the property demands for a civil date in (y, m)"""
    if y < 1972: return 0.0
    return 32.184 + 10 + (iers_count(y, m) if L is None else L)


def instant(y, m, d, secs=0.0):
    """days; d may be fractional"""
    return R.jdn(y, m, 1) - 0.5 + (d - 1) + secs / 86400.0


def inst_of(date):
    y, m, d = date
    if not (isinstance(y, int) and isinstance(m, int) and 1 <= m <= 12): return float("nan")
    return instant(y, m, d)


def kwstr(kw):
    return "".join(", %s=%r" % (k, v) for k, v in kw.items())


def cases(rng, tier):
    n = 120 if tier == "quick" else 1200
    cs = []
    ym = [(1971, 12), (1972, 1), (1972, 2), (1972, 6), (1972, 7), (1972, 12), (1973, 1), (2016, 12), (2017, 1),
          (2017, 2), (2100, 12), (1950, 1), (1981, 6), (1981, 7), (2015, 6), (2015, 7)]
    ym += [(rng.randint(1950, 2100), rng.randint(1, 12)) for _ in range(n)]
    ym += [(rng.randint(1971, 2018), rng.choice([1, 2, 6, 7, 12])) for _ in range(n)]
    for (y, m) in ym:
        d = rng.choice([1, 15, R.mlen(y, m)])
        h, mi, s = rng.choice(TIMES)
        a = "%d, %d, %d, %d, %d, %d" % (y, m, d, h, mi, s)
        k = rng.random()
        cs.append("Epoch.leap_seconds(%d, %d)" % (y, m))
        if k < 0.25: cs.append("Epoch(%s, utc=True).jde()" % a)
        elif k < 0.5: cs.append("Epoch(%s, utc=True).get_date(utc=True)" % a)
        elif k < 0.6:
            L = rng.choice([0, 1, 27, 37, 60, 35.0, 0.0, rng.randint(0, 60)])
            cs.append("Epoch(%s, leap_seconds=%r).jde()" % (a, L))
        elif k < 0.8:
            L = rng.choice([0, 1, 27, 37, 60, 35.0, rng.randint(0, 60)])
            cs.append("Epoch(%s, utc=True, leap_seconds=%r).get_date(utc=True, leap_seconds=%r)" % (a, L, L))
        elif k < 0.9:
            cs.append("Epoch(%s).get_date(utc=True)" % a)
        else:
            cs.append("Epoch(%s, utc=True).get_full_date(utc=True)" % a)
    cs += ["Epoch.get_last_leap_second()", "Epoch(2451545.0, utc=True).jde()", "Epoch(1972, 1, 1, utc=True).get_date(utc=True)",
           "Epoch(1971, 12, 31, 23, 59, 59, utc=True).get_date(utc=True)", "Epoch(2017, 1, 1, utc=True).get_date(utc=True)",
           "Epoch(2016, 12, 31, 23, 59, 59, utc=True).get_date(utc=True)", "Epoch(2000, 1, 1, utc=False).jde()",
           "Epoch(2000, 1, 1, leap_seconds=0).jde()", "Epoch(2000, 1, 1, utc=True, leap_seconds=0.0).jde()"]
    # Delta-T: every segment, both sides of every joint, the libm-pow segment
    for J in JOINTS:
        lo = math.nextafter(float(J), -math.inf)
        for mo in (0.5, 1):
            cs += ["Epoch.tt2ut(%r, %r)" % (float(J), mo), "Epoch.tt2ut(%r, %r)" % (lo, mo)]
        cs += ["Epoch.tt2ut(%d, 1)" % J, "Epoch.tt2ut(%d, 12)" % (J - 1)]
    for _ in range(n):
        cs.append("Epoch.tt2ut(%d, %d)" % (rng.randint(-2000, 3000), rng.randint(1, 12)))
    for _ in range(n // 3):
        cs.append("Epoch.tt2ut(%d, %d)" % (rng.randint(2050, 2149), rng.randint(1, 12)))
        cs.append("Epoch.tt2ut(%d, %d)" % (rng.randint(1972, 2018), rng.randint(1, 12)))
    return cs


def replay(expr):
    return "PYTHONPATH=/repo /venv/bin/python -c \"from pymeeus.Epoch import Epoch; print(%s)\"" % expr


class Out:
    def __init__(self):
        self.findings, self.n, self.nontriv, self.perkey = [], 0, 0, {}
    def add(self, key, what, inp, expr):
        c = self.perkey.get(key, 0)
        self.perkey[key] = c + 1
        if c < 5:
            self.findings.append({"key": key, "what": what, "input": inp, "replay": replay(expr)})


def check_date(Epoch, O, y, m, d, h, mi, s, kws):
    """clauses (b), (c), (d) for one civil date and time; kws: list of (kwargs dict, L or None)"""
    a = "%d, %d, %d, %d, %d, %d" % (y, m, d, h, mi, s)
    secs = h * 3600 + mi * 60 + s
    want_inst = instant(y, m, d, secs)
    try:
        e0 = Epoch(y, m, d, h, mi, s)
    except Exception as ex:
        O.add("construct-raises", "Epoch(%s) raises %r" % (a, ex), [y, m, d, h, mi, s], "Epoch(%s)" % a)
        return
    j0 = e0.jde()
    O.n += 1
    if not abs(j0 - want_inst) * 86400 <= 1e-4:
        O.add("plain-construct-wrong", "Epoch(%s).jde() = %r, the civil instant is %r" % (a, j0, want_inst),
              [y, m, d, h, mi, s], "Epoch(%s).jde()" % a)
    for kw, L in kws:
        ks = kwstr(kw)
        O.n += 3
        if y >= 1972: O.nontriv += 1
        off = offset(y, m, L)
        zero = (L is not None and L == 0 and y >= 1972)
        table = L is None
        # -- construction
        try:
            e1 = Epoch(y, m, d, h, mi, s, **kw)
            diff = (e1.jde() - j0) * 86400
        except Exception as ex:
            O.add("utc-construct-raises" if table else "leap-seconds-override-construct",
                  "Epoch(%s%s) raises %r" % (a, ks, ex), [y, m, d, h, mi, s, kw], "Epoch(%s%s)" % (a, ks))
            continue
        expr = "(Epoch(%s%s).jde() - Epoch(%s).jde()) * 86400" % (a, ks, a)
        if y < 1972:
            if diff != 0.0:
                O.add("utc-offset-before-1972" if table else "leap-seconds-override-before-1972",
                      "Epoch(%s%s) is %r s later than Epoch(%s); no correction is defined before 1972" % (a, ks, diff, a),
                      [y, m, d, h, mi, s, kw], expr)
        elif not abs(diff - off) <= 1e-4:
            if zero and diff == 0.0:
                O.add(KNOWN_ZERO, "Epoch(%s%s) equals Epoch(%s): leap_seconds=0 switches the correction off instead of "
                      "meaning zero leap seconds (expected %.3f s)" % (a, ks, a, off), [y, m, d, h, mi, s, kw], expr)
            else:
                O.add("utc-offset-wrong" if table else "leap-seconds-override-construct",
                      "Epoch(%s%s) is %.6f s later than Epoch(%s), expected 32.184 + 10 + %s = %.3f"
                      % (a, ks, diff, a, ("%d (IERS)" % iers_count(y, m)) if table else repr(L), off),
                      [y, m, d, h, mi, s, kw], expr)
        # -- read-back of the Epoch just built (round trip)
        gk = dict(kw)
        gks = kwstr(gk).lstrip(", ")
        expr = "Epoch(%s%s).get_date(%s)" % (a, ks, gks)
        try:
            back = e1.get_date(**gk)
            err = (inst_of(back) - want_inst) * 86400
        except Exception as ex:
            O.add("utc-readback-wrong" if table else "leap-seconds-override-readback",
                  "%s raises %r" % (expr, ex), [y, m, d, h, mi, s, kw], expr)
            continue
        if not abs(err) <= 1e-3:
            O.add("utc-readback-wrong" if table else "leap-seconds-override-readback",
                  "%s = %r, which is %.6f s away from the civil instant %d-%02d-%02d %02d:%02d:%02d"
                  % (expr, back, err, y, m, d, h, mi, s), [y, m, d, h, mi, s, kw], expr)
        # -- read-back of an independently built TT instant (civil instant + demanded offset)
        jtt = want_inst + off / 86400.0
        expr = "Epoch(%r).get_date(%s)" % (jtt, gks)
        try:
            back = Epoch(jtt).get_date(**gk)
            err = (inst_of(back) - want_inst) * 86400
        except Exception as ex:
            O.add("utc-getdate-wrong" if table else "leap-seconds-override-getdate",
                  "%s raises %r" % (expr, ex), [jtt, kw], expr)
            continue
        if not abs(err) <= 1e-3:
            if zero and abs(err - off) <= 1e-3:
                O.add(KNOWN_ZERO, "%s = %r: not corrected at all (leap_seconds=0 switches the correction off; expected "
                      "%d-%02d-%02d %02d:%02d:%02d UTC)" % (expr, back, y, m, d, h, mi, s), [jtt, kw], expr)
            else:
                O.add("utc-getdate-wrong" if table else "leap-seconds-override-getdate",
                      "%s = %r, which is %.6f s away from %d-%02d-%02d %02d:%02d:%02d UTC (TT - UTC = %.3f s there)"
                      % (expr, back, err, y, m, d, h, mi, s, off), [jtt, kw], expr)


def search(rng, tier, deep):
    mods = load(["Epoch"])
    Epoch = mods["Epoch"].Epoch
    O = Out()
    full = True     # the whole quantifier costs well under a minute in Python: always run it in full
    # ---- (a) the table
    prev = None
    for y in range(1950, 2101):
        for m in range(1, 13):
            O.n += 1
            e = "Epoch.leap_seconds(%d, %d)" % (y, m)
            try:
                got = Epoch.leap_seconds(y, m)
            except Exception as ex:
                O.add("leap-table-differs-from-iers", "%s raises %r" % (e, ex), [y, m], e); continue
            want = iers_count(y, m)
            if got != want or isinstance(got, bool) or not isinstance(got, int):
                O.add("leap-table-differs-from-iers", "%s = %r, the IERS list has %d insertions up to %d-%02d-01"
                      % (e, got, want, y, m), [y, m], e)
            if prev is not None and got < prev[2]:
                O.add("leap-table-not-monotone", "%s = %r < %r = leap_seconds(%d, %d)" % (e, got, prev[2], prev[0], prev[1]),
                      [y, m], e)
            if (y, m) > (2017, 1) and got != prev[2]:
                O.add("leap-table-not-constant-after-2017", "%s = %r but leap_seconds(%d, %d) = %r"
                      % (e, got, prev[0], prev[1], prev[2]), [y, m], e)
            prev = (y, m, got)
    O.n += 1
    try:
        last = Epoch.get_last_leap_second()
        if tuple(last) != (2016, 12, 31.0, 27):
            O.add("last-leap-second-wrong", "get_last_leap_second() = %r, the last IERS insertion is the end of 2016-12-31 (count 27)"
                  % (last,), [], "Epoch.get_last_leap_second()")
    except Exception as ex:
        O.add("last-leap-second-wrong", "get_last_leap_second() raises %r" % ex, [], "Epoch.get_last_leap_second()")
    # ---- (b), (c), (d): the whole quantifier for utc=True and the overrides
    allL = list(range(0, 61))
    someL = [0, 1, 2, 10, 26, 27, 28, 37, 59, 60]
    for y in range(1950, 2101):
        dense = full or 1969 <= y <= 1974 or y in (2016, 2017, 2100, 1950) or rng.random() < 0.04
        for m in range(1, 13):
            for d in (1, 15, R.mlen(y, m)):
                for (h, mi, s) in TIMES:
                    kws = [({"utc": True}, None)]
                    Ls = allL if dense else someL + [rng.randint(0, 60)]
                    for L in Ls:
                        kws.append(({"utc": True, "leap_seconds": L}, L))
                    # the other spellings of the override
                    L = rng.randint(1, 60)
                    kws.append(({"leap_seconds": L}, L))
                    kws.append(({"leap_seconds": float(L)}, float(L)))
                    if dense: kws.append(({"leap_seconds": 0}, 0))
                    check_date(Epoch, O, y, m, d, h, mi, s, kws)
    # ---- (e) Delta-T
    pow_bad = 0
    for y in range(-2000, 3001):
        for m in range(1, 13):
            O.n += 1
            e = "Epoch.tt2ut(%d, %d)" % (y, m)
            try:
                dt = Epoch.tt2ut(y, m)
            except Exception as ex:
                O.add("deltat-not-finite", "%s raises %r" % (e, ex), [y, m], e); continue
            if not (isinstance(dt, float) and math.isfinite(dt)):
                O.add("deltat-not-finite", "%s = %r" % (e, dt), [y, m], e); continue
            if 1972 <= y <= 2018:
                O.nontriv += 1
                want = 42.184 + iers_count(y, m)
                if not abs(dt - want) <= 3.5:
                    O.add("deltat-far-from-leap-seconds", "%s = %.4f, 42.184 + %d leap seconds = %.3f (difference %.3f > 3.5 s)"
                          % (e, dt, iers_count(y, m), want, dt - want), [y, m], e)
            if 2050 <= y < 2150:
                # hypothesis of theorem C10_deltat_pow_segment: libm pow(x, 2) within 1 ulp of x*x
                x = ((y + (m - 0.5) / 12.0) - 1820.0) / 100.0
                if x ** 2 not in (x * x, math.nextafter(x * x, math.inf), math.nextafter(x * x, -math.inf)):
                    pow_bad += 1
    if pow_bad:
        O.add("libm-pow-not-within-1ulp", "%d arguments x of the 2050..2149 segment have x**2 more than 1 ulp from x*x" % pow_bad,
              [], "'see vlib/props/C10.py'")
    for J in JOINTS:
        lo = math.nextafter(float(J), -math.inf)
        for mo in (0.5, 1):
            O.n += 2
            O.nontriv += 1
            e = "Epoch.tt2ut(%r, %r) - Epoch.tt2ut(%r, %r)" % (float(J), mo, lo, mo)
            try:
                jump = Epoch.tt2ut(float(J), mo) - Epoch.tt2ut(lo, mo)
            except Exception as ex:
                O.add("deltat-joint-jump", "%s raises %r" % (e, ex), [J, mo], e); continue
            if not abs(jump) < 1.0:
                O.add("deltat-joint-jump", "Delta-T jumps by %.4f s at the segment joint %d (month argument %r)" % (jump, J, mo),
                      [J, mo], e)
    # the same joints on the property's (year, month) grid (text: joints after year -500)
    for J in JOINTS[1:]:
        O.n += 2; O.nontriv += 1
        e = "Epoch.tt2ut(%d, 1) - Epoch.tt2ut(%d, 12)" % (J, J - 1)
        try:
            jump = Epoch.tt2ut(J, 1) - Epoch.tt2ut(J - 1, 12)
        except Exception as ex:
            O.add("deltat-joint-jump", "%s raises %r" % (e, ex), [J, 1], e); continue
        if not abs(jump) < 1.0:
            O.add("deltat-joint-jump-monthly", "Delta-T jumps by %.4f s from December %d to January %d (segment joint %d)" % (jump, J - 1, J, J), [J, 1], e)
    stats = {"evaluations": O.n, "distinct_nontrivial": O.nontriv,
             "rule": "the property's whole quantifier on the implementation: every (y, m) 1950..2100 for the table; x days 1/15/last x "
                     "0h/12h/23:59:59 for utc=True (offset, round trip, read-back of an independently built TT instant); overrides "
                     "leap_seconds=L: %s; every (year, month) -2000..3000 and both sides of the 14 joints for Delta-T; "
                     "non-trivial = dates from 1972 on / months 1972..2018 / joints"
                     % ("ALL L in 0..60 for every date" if full else
                        "all L in 0..60 for the years 1969..1974, 2016, 2017, 1950, 2100 and a random 4 % of the years, "
                        "11 values of L (incl. 0, 1, 27, 60) + 2 other spellings for every other date"),
             "samples": [{"input": [1972, 1, 1, 0, 0, 0], "checked": "utc=True adds 42.184 s; get_date(utc=True) returns 1972-01-01 0h to 1 ms"},
                         {"input": [2016, 12, 31, 23, 59, 59], "checked": "offset 68.184 s (26 leap seconds), round trip to 1 ms"},
                         {"input": [2017, 1, 1, 0, 0, 0], "checked": "offset 69.184 s (27 leap seconds)"},
                         {"input": "leap_seconds=0", "checked": "reported under the known-finding key when (and only when) it behaves as 'no correction'"}],
             "exhaustive_search": bool(full)}
    return O.findings, stats
