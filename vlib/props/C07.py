"""C07 — VSOP87 heliocentric positions are physical, continuous and self-consistent."""
import hashlib, math
from vlib import common as K
from vlib.impl import load

ID = "C07"
MODULES = K.mods("base", "Angle", "Epoch", "Interpolation", "Coordinates", "Earth", "Sun", "Mercury", "Venus",
                 "Mars", "Jupiter", "Saturn", "Uranus", "Neptune", "Pluto", "Minor")
PLANETS = ["Mercury", "Venus", "Earth", "Mars", "Jupiter", "Saturn", "Uranus", "Neptune"]
REQUIRED = (["vsop_pos", "geometric_vsop_pos", "apparent_vsop_pos", "orbital_elements", "nutation_longitude",
             "Angle.__init__", "Angle.set", "Angle.to_positive", "Angle.rad", "Angle.reduce_deg", "Angle.__iadd__",
             "Epoch.jde"]
            + ["%s.%s" % (p, f) for p in PLANETS for f in
               ("geometric_heliocentric_position", "apparent_heliocentric_position",
                "orbital_elements_mean_equinox", "orbital_elements_j2000")]
            + ["Earth.geometric_heliocentric_position_j2000"])
THEOREMS = ["C07_series_evaluator", "C07_horner_is_direct_sum", "C07_vsop_longitude_range",
            "C07_fk5_correction", "C07_fk5_size", "C07_aberration", "C07_corrected_longitude_range",
            "C07_table_constants", "C07_earth_j2000_rate", "C07_orbital_elements",
            "C07_series_derivative", "C07_longitude_increasing", "C07_envelope_partial"]
PROOF_TIMEOUT = {"quick": 2000, "thorough": 3000}
EXHAUSTIVE = False
MANIFEST = {
    "category": "proof",
    "text": ("T5/T4 in the ideal (real-number) instance of the regenerated model: for ANY tables, vsop_pos returns "
             "(sum_i t^i sum_k A cos(B+Ct))/1e8 for longitude (reduced to [0,360)), latitude and radius (induction over "
             "the generated loops); FK5 / aberration corrections of geometric/apparent_vsop_pos have the documented form "
             "and size and the corrected longitude is again in [0,360); mean-longitude rate of every planet's series equals "
             "the element table's to 1e-6 and n^2 a^3 = k^2 to 0.1 % / 1 % on the extracted tables.  Longitude strictly increasing over years -2000..6000 for all 8 planets (derivative + amplitude sum of the extracted tables below the secular rate, kernel-checked in integer arithmetic; mean value theorem).  Physical envelopes (only plain amplitude-sum bounds proved), "
             "rate within 3 %, Kepler agreement, continuity and binary64 summation agreement: searched, not proved."),
    "technique": "induction over generated fix loops (any table shape) + pyrun symbolic evaluation + lra/interval on extracted constants + Coquelicot derivatives and MVT + reflection: tables instantiated at a decimal carrier and bounded in Z by vm_compute + bit-exact correspondence + dense property search",
    "design_ref": "8/C07",
}
EXPLANATION = ("The generated vsop_pos (nested loops, Horner in t, 1e-8 scaling) is proved, for tables of ANY shape, to return "
               "the direct double sum / 1e8 (real arithmetic); the FK5 and aberration corrections are proved to have the "
               "documented form, size bound and to leave the longitude in [0,360); series mean-longitude rate vs element "
               "tables (1e-6) and Kepler's third law (0.1 %/1 %) are proved on the tables extracted from the source. "
               "Global numeric clauses over 1000-term series are covered by the search only.")
CLAUSES = {
    "evaluator = direct term-by-term double sum / 1e8 (L, B, R), any tables": "proved [ideal, induction over the generated loops, any table shape]",
    "Horner in t = sum_i t^i S_i": "proved [spec, induction]",
    "longitude of vsop_pos in [0,360)": "proved [ideal]; binary64: unproved (searched)",
    "longitude of geometric/apparent variants in [0,360) after FK5 / aberration": "proved [ideal, abstract vsop_pos result]; binary64: unproved (searched, incl. epochs within 1 arcsec of the 0/360 seam)",
    "FK5 correction: dlon = -0.09033'' + 0.03916''(cos l' + sin l') tan b, dlat = 0.03916''(cos l' - sin l'); size bounds": "proved [ideal]",
    "aberration -20.4898''/r (r >= 0.01 AU), nutation added before it": "proved [ideal, abstract geometric_vsop_pos / nutation_longitude result]",
    "series mean-longitude rate = element table rate to 1e-6 (8 planets)": "proved [ideal arithmetic on the extracted tables]",
    "Kepler's third law n^2 a^3 = k^2 to 0.1 % (1 % Saturn-Neptune)": "proved [ideal arithmetic on the extracted tables]",
    "orbital_elements = cubic polynomials of the table rows in T, argument of perihelion = perihelion - node": "proved [ideal, symbolic tables; the module constant JDE2000 = 2451545 is a hypothesis in quick, discharged by evaluation in thorough]",
    "|latitude| <= inclination + 0.05 deg": "unproved (searched): global bound of a 1000-term trigonometric series over 6000 years",
    "radius within perihelion/aphelion distance of the mean orbit, 1 % slack": "unproved (searched): same reason",
    "longitude only increases (all 8 planets: Mercury, Venus, Earth, Mars, Jupiter, Saturn, Uranus, Neptune; years -2000..6000)": "proved [ideal: C07_series_derivative (term-by-term derivative by Coquelicot, amplitude bound, mean value theorem, any tables) + C07_longitude_increasing (per planet the kernel reads the regenerated VSOP87_L table as exact decimals and checks in integer arithmetic that the amplitude sum of all non-secular terms at |t| = 4 millennia is below the secular rate: ratios 0.64 Mercury, 0.31 Mars, 0.23 Saturn, 0.14 Jupiter, 0.12 Uranus, 0.05 Earth, 0.03 Neptune, 0.02 Venus): the unreduced longitude direct_sum/1e8 that vsop_pos reduces to [0,360) is strictly increasing in the epoch]; binary64: searched",
    "daily rate within 3 % of the Keplerian extremes": "unproved (searched): needs a sharp bound of the derivative, the amplitude sum only gives positivity",
    "amplitude envelopes of latitude and radius (partial: plain amplitude sums over years -2000..6000, weaker than the property's inclination + 0.05 deg / 1 % slack)": "proved [ideal, C07_envelope_partial: |B| <= nB/1e23 rad, |R - constant term| <= nR/1e23 AU with nB, nR computed by the kernel from the regenerated tables; on the current tree: Mercury 10.78 deg / 0.0997 AU, Venus 4.86 / 0.0066, Earth 0.0006 / 0.0220, Mars 3.28 / 0.2089, Jupiter 2.00 / 0.3521, Saturn 4.28 / 1.0537, Uranus 1.48 / 1.0589, Neptune 2.46 / 0.3275]",
    "agreement with Kepler's equation on the library's mean elements (0.1 deg Mercury-Mars, 1/2.5/1.5/1 deg Jupiter/Saturn/Uranus/Neptune, 1 % distance)": "unproved (searched)",
    "continuity at 1-second steps": "unproved (searched)",
    "history independence of the evaluator (two nearby instants evaluated one after the other each give the direct sum at their own instant)": "searched (key nearby-epochs-direct-sum); the model is a pure function of (epoch, tables), so a memo shared between calls cannot be expressed - the translator refuses it (stage G) and this clause supplies the failing input",
    "binary64: evaluator vs exactly rounded direct sum, 1e-11 rad (B, R: everywhere; L: 1e-11 rad + 128 ulp of the unreduced angle, which reaches 1e5 rad where 1 ulp = 1.5e-11 rad)": "unproved (searched): rounding is outside the ideal instance",
}


def proof_files(tier):
    fs = ["C07_defs.v", "C07_lib.v", "C07_angle.v", "C07_sec_a.v", "C07_sec_b.v", "C07_sec_c.v", "C07_sec.v",
          "C07_series.v", "C07_corr.v", "C07_const.v", "C07_elem.v",
          "C07_mono.v", "C07_dec.v", "C07_mono_code.v"] + ["C07_mono_%s.v" % p.lower() for p in PLANETS]
    if tier == "thorough":
        fs.append("C07_jde2000.v")      # evaluates Epoch(2000, 1, 1.5) in real arithmetic: minutes
    return fs + ["C07.v"]


# ------------------------------------------------------------------ numbers of the property text
KEPLER_TOL_DEG = {"Mercury": 0.1, "Venus": 0.1, "Earth": 0.1, "Mars": 0.1,
                  "Jupiter": 1.0, "Saturn": 2.5, "Uranus": 1.5, "Neptune": 1.0}
THIRD_LAW_TOL = {"Mercury": 1e-3, "Venus": 1e-3, "Earth": 1e-3, "Mars": 1e-3, "Jupiter": 1e-3,
                 "Saturn": 1e-2, "Uranus": 1e-2, "Neptune": 1e-2}
GAUSS_K = 0.01720209895
ASEC = 1.0 / 3600.0
# the tables the clauses were verified on (sha256 of repr, first 24 hex digits); a changed coefficient that is
# too small for the physical clauses (below the perturbation amplitude) still shows here
TABLE_FINGERPRINT = {
    "Mercury": "42af3da5862ffcfe80385443",
    "Venus": "b8740f9164dc145dcf532896",
    "Earth": "20ab5a67d3a6fe65c8d16d67",
    "Mars": "b989c457b60251f16d466942",
    "Jupiter": "e750619da54775b56119815e",
    "Saturn": "0bfc4fbe806b2429115f45a1",
    "Uranus": "530c39bd2e21c6b838384b56",
    "Neptune": "f47fc1f0ba56d178de44caa9",
}


def jde_of_year(y):
    return 2451545.0 + (y - 2000.0) * 365.25


# ------------------------------------------------------------------ correspondence cases
def cases(rng, tier):
    n = 1 if tier == "quick" else 3
    cs = []
    for p in PLANETS:
        for _ in range(n):
            # thousands of traced cos values per case: two per planet (quick)
            j = [round(jde_of_year(rng.uniform(-2000, 4000)), 3) for _ in range(2)]
            if rng.random() < 0.5:
                cs.append("%s.geometric_heliocentric_position(Epoch(%r))" % (p, j[0]))
            else:
                cs.append("%s.geometric_heliocentric_position(Epoch(%r), tofk5=False)" % (p, j[0]))
            cs.append("%s.apparent_heliocentric_position(Epoch(%r))" % (p, j[1]))
        for _ in range(4 * n):
            j = round(jde_of_year(rng.uniform(-2000, 4000)), 3)
            cs.append("%s.orbital_elements_mean_equinox(Epoch(%r))" % (p, j))
            cs.append("%s.orbital_elements_j2000(Epoch(%r))" % (p, j))
    cs += ["Earth.geometric_heliocentric_position_j2000(Epoch(2448908.5))",
           "Earth.apparent_heliocentric_position(Epoch(2448908.5), nutation=False)",
           "Venus.geometric_heliocentric_position(Epoch(1992, 12, 20.0), tofk5=False)",
           # small hand-made tables: every path of the generic evaluator, cheaply
           "vsop_pos(Epoch(2451545.0 + 36525.0), [[[1.0e8, 0.5, 2.0], [3.0e7, 1.0, 0.25]], [[2.0e7, 0.0, 0.0]], [[5.0e6, 2.0, 1.0]]], [[[1.0e6, 0.3, 7.0]]], [[[1.0e8, 0.0, 0.0]], [[1.0e5, 1.0, 3.0]]])",
           "vsop_pos(Epoch(2451545.0 - 1234567.0), [[[-7.0e8, 0.5, 2.0]], [[2.0e9, 0.0, 0.0]]], [[[1.0e6, 0.3, 7.0]], [], [[3.0, 1.0, 1.0]]], [[[1.0e8, 0, 0]]])",
           "geometric_vsop_pos(Epoch(2451545.0 + 1000.0), [[[1.0, 0.0, 0.0]]], [[[1.0e6, 0.3, 7.0]]], [[[1.0e8, 0.0, 0.0]]])",
           "geometric_vsop_pos(Epoch(2451545.0 + 1000.0), [[[1.0, 0.0, 0.0]]], [[[1.0e6, 0.3, 7.0]]], [[[1.0e8, 0.0, 0.0]]], False)",
           "apparent_vsop_pos(Epoch(2451545.0 + 1000.0), [[[1.0, 0.0, 0.0]]], [[[1.0e6, 0.3, 7.0]]], [[[1.0e8, 0.0, 0.0]]])",
           "apparent_vsop_pos(Epoch(2451545.0 + 1000.0), [[[1.0, 0.0, 0.0]]], [[[1.0e6, 0.3, 7.0]]], [[[1.0e8, 0.0, 0.0]]], nutation=False)",
           "vsop_pos(Epoch(2451545.0), [], [[[1.0, 0.0, 0.0]]], [[[1.0, 0.0, 0.0]]])",
           "vsop_pos(2451545.0, [[[1.0, 0.0, 0.0]]], [[[1.0, 0.0, 0.0]]], [[[1.0, 0.0, 0.0]]])",
           "vsop_pos(Epoch(2451545.0), ((1.0, 0.0, 0.0),), [[[1.0, 0.0, 0.0]]], [[[1.0, 0.0, 0.0]]])",
           "geometric_vsop_pos(None, [[[1.0, 0.0, 0.0]]], [[[1.0, 0.0, 0.0]]], [[[1.0, 0.0, 0.0]]])",
           "apparent_vsop_pos('x', [[[1.0, 0.0, 0.0]]], [[[1.0, 0.0, 0.0]]], [[[1.0, 0.0, 0.0]]])",
           "apparent_vsop_pos(Epoch(2451545.0), [[[1.0, 0.0, 0.0]]], [[[1.0, 0.0, 0.0]]], [[[0.0, 0.0, 0.0]]])",
           "orbital_elements(Epoch(2451545.0 + 3652.5), [[1.0, 2.0, 3.0, 4.0], [5.0, 0.5, 0.25, 0.125], [0.1, 0.01, 0.001, 0.0001]], [[100.0, 36000.0, 0.5, 0.25], [3.0, 0.1, 0.2, 0.3], [70.0, 1.0, 2.0, 3.0], [130.0, 0.5, 0.7, 0.9]])",
           "orbital_elements(2451545.0, [], [])", "Venus.orbital_elements_j2000(None)",
           "Mars.geometric_heliocentric_position(2451545.0)", "Jupiter.apparent_heliocentric_position('a')"]
    return cs


# ------------------------------------------------------------------ independent reference computations
def direct_sum(table, t):
    """exactly rounded term-by-term double sum  sum_i sum_k A t^i cos(B + C t)  / 1e8"""
    terms = []
    for i, series in enumerate(table):
        ti = t ** i
        for (a, b, c) in series:
            terms.append(a * ti * math.cos(b + c * t))
    return math.fsum(terms) / 1e8


def solve_kepler(m, e):
    big_e = m if e < 0.8 else math.pi
    for _ in range(60):
        d = (big_e - e * math.sin(big_e) - m) / (1.0 - e * math.cos(big_e))
        big_e -= d
        if abs(d) < 1e-15: break
    return big_e


def kepler_position(l_deg, a, e, i_deg, node_deg, arg_deg):
    """heliocentric ecliptic longitude, latitude (deg) and radius from mean elements"""
    inc, node, w = math.radians(i_deg), math.radians(node_deg), math.radians(arg_deg)
    m = math.remainder(math.radians(l_deg) - node - w, 2 * math.pi)
    big_e = solve_kepler(m, e)
    v = 2.0 * math.atan2(math.sqrt(1 + e) * math.sin(big_e / 2), math.sqrt(1 - e) * math.cos(big_e / 2))
    r = a * (1 - e * math.cos(big_e))
    u = w + v
    lon = node + math.atan2(math.sin(u) * math.cos(inc), math.cos(u))
    lat = math.asin(math.sin(u) * math.sin(inc))
    return math.degrees(lon) % 360.0, math.degrees(lat), r


def poly(c, t):
    return c[0] + c[1] * t + c[2] * t * t + c[3] * t * t * t


def wrap180(x):
    return math.remainder(x, 360.0)


class Ctx:
    def __init__(self):
        names = ["Epoch", "Coordinates", "Angle"] + PLANETS
        self.mods = load(names)
        self.Epoch = self.mods["Epoch"].Epoch
        self.C = self.mods["Coordinates"]
        self.findings, self.keys = [], {}
        self.n, self.nontriv = 0, 0

    def planet(self, p):
        m = self.mods[p]
        return m, getattr(m, p)

    def report(self, key, p, what, jde, call):
        self.keys[key] = self.keys.get(key, 0) + 1
        if self.keys[key] > 3: return
        imp = "from pymeeus.Epoch import Epoch; from pymeeus.Angle import Angle; from pymeeus.Coordinates import *; from pymeeus.%s import *" % p
        self.findings.append({
            "key": key, "what": "%s: %s" % (p, what), "input": {"planet": p, "jde": jde, "call": call},
            "replay": "PYTHONPATH=%s /venv/bin/python -c \"%s; r = %s; print([float(x) for x in r])\"" % (K.REPO, imp, call)})


def lon_ok(x):
    return 0.0 <= x < 360.0


def check_ranges(cx, p, jde):
    """longitude in [0,360) for every variant / option at this epoch"""
    m, cls = cx.planet(p)
    e = cx.Epoch(jde)
    L, B, R = m.VSOP87_L, m.VSOP87_B, m.VSOP87_R
    variants = [
        ("lon-range-vsop_pos", "vsop_pos(Epoch(%r), VSOP87_L, VSOP87_B, VSOP87_R)" % jde, lambda: cx.C.vsop_pos(e, L, B, R)),
        ("lon-range-geometric-fk5", "%s.geometric_heliocentric_position(Epoch(%r), True)" % (p, jde),
         lambda: cls.geometric_heliocentric_position(e, True)),
        ("lon-range-geometric-nofk5", "%s.geometric_heliocentric_position(Epoch(%r), False)" % (p, jde),
         lambda: cls.geometric_heliocentric_position(e, False)),
        ("lon-range-apparent", "%s.apparent_heliocentric_position(Epoch(%r))" % (p, jde),
         lambda: cls.apparent_heliocentric_position(e)),
        ("lon-range-apparent-nonutation", "apparent_vsop_pos(Epoch(%r), VSOP87_L, VSOP87_B, VSOP87_R, False)" % jde,
         lambda: cx.C.apparent_vsop_pos(e, L, B, R, False)),
    ]
    if p == "Earth":
        variants.append(("lon-range-geometric-j2000", "Earth.geometric_heliocentric_position_j2000(Epoch(%r))" % jde,
                         lambda: cls.geometric_heliocentric_position_j2000(e)))
    out = {}
    for key, call, f in variants:
        cx.n += 1
        try:
            lon, lat, r = f()
        except Exception as ex:
            cx.report(key, p, "%s raises %r" % (call, ex), jde, call); continue
        out[key] = (float(lon), float(lat), r)
        if not lon_ok(float(lon)):
            cx.report(key, p, "longitude %r outside [0, 360) at JDE %r" % (float(lon), jde), jde, call)
        if not (abs(float(lat)) < 90.0 and r > 0.0):
            cx.report(key, p, "latitude %r / radius %r not physical at JDE %r" % (float(lat), r, jde), jde, call)
    return out


def check_epoch(cx, p, jde, full=True):
    """all per-epoch clauses of the property at one epoch"""
    m, cls = cx.planet(p)
    Epoch = cx.Epoch
    e = Epoch(jde)
    cx.nontriv += 1
    gcall = "%s.geometric_heliocentric_position(Epoch(%r), False)" % (p, jde)
    vs = check_ranges(cx, p, jde)
    if "lon-range-geometric-nofk5" not in vs: return
    lon, lat, r = vs["lon-range-geometric-nofk5"]
    # --- elements of the library at this epoch
    ecall = "%s.orbital_elements_mean_equinox(Epoch(%r))" % (p, jde)
    try:
        ll, a, ecc, inc, node, arg = cls.orbital_elements_mean_equinox(e)
        mean_anom = ll - arg - node         # an Angle in (-360, 360), as a user of the library forms it
        ll, inc, node, arg = float(ll), float(inc), float(node), float(arg)
        lj = cls.orbital_elements_j2000(e)
    except Exception as ex:
        cx.report("orbital-elements-raise", p, "%s raises %r" % (ecall, ex), jde, ecall); return
    cx.n += 2
    jst = float(e.jde())                # the instant the object holds (Epoch(x) may store x one ulp off: property C02)
    T = (jst - 2451545.0) / 36525.0
    t = (jst - 2451545.0) / 365250.0
    # orbital_elements = cubic polynomials of the tables (independent evaluation)
    OE, OJ = m.ORBITAL_ELEM, m.ORBITAL_ELEM_J2000
    want = [poly(OE[0], T), poly(OE[1], T), poly(OE[2], T), poly(OE[3], T), poly(OE[4], T), poly(OE[5], T) - poly(OE[4], T)]
    got = [ll, a, ecc, inc, node, arg]
    for k, nm in enumerate(("mean longitude", "semi-major axis", "eccentricity", "inclination", "node", "argument of perihelion")):
        d = (got[k] - want[k]) if k in (1, 2) else wrap180(got[k] - want[k])
        if abs(d) > 1e-9 * max(1.0, abs(want[k]) / 360.0 if k not in (1, 2) else 1.0):
            cx.report("orbital-elements-polynomial", p, "%s at JDE %r is %r, the table polynomial gives %r" % (nm, jde, got[k], want[k]), jde, ecall)
    wantj = [poly(OJ[0], T), poly(OE[1], T), poly(OE[2], T), poly(OJ[1], T), poly(OJ[2], T), poly(OJ[3], T) - poly(OJ[2], T)]
    for k in range(6):
        g = float(lj[k])
        d = (g - wantj[k]) if k in (1, 2) else wrap180(g - wantj[k])
        if abs(d) > 1e-9 * max(1.0, abs(wantj[k]) / 360.0 if k not in (1, 2) else 1.0):
            cx.report("orbital-elements-polynomial", p, "J2000 element %d at JDE %r is %r, the table polynomial gives %r" % (k, jde, g, wantj[k]),
                      jde, "%s.orbital_elements_j2000(Epoch(%r))" % (p, jde))
    # --- envelopes
    if abs(lat) > inc + 0.05:
        cx.report("latitude-envelope", p, "|B| = %.6f deg exceeds inclination %.6f + 0.05 at JDE %r" % (abs(lat), inc, jde), jde, gcall)
    q, Q = a * (1 - ecc), a * (1 + ecc)
    if not (q * 0.99 <= r <= Q * 1.01):
        cx.report("radius-envelope", p, "r = %.8f AU outside [%.8f, %.8f] (1 %% slack) at JDE %r" % (r, q, Q, jde), jde, gcall)
    # --- daily motion
    n_mean = OE[0][1] / 36525.0
    rmax = n_mean * math.sqrt(1 - ecc * ecc) / (1 - ecc) ** 2
    rmin = n_mean * math.sqrt(1 - ecc * ecc) / (1 + ecc) ** 2
    lon1 = float(cls.geometric_heliocentric_position(Epoch(jde + 1.0), False)[0]); cx.n += 1
    rate = (lon1 - lon) % 360.0
    if rate > 180.0: rate -= 360.0
    if not (rate > 0.0 and 0.97 * rmin <= rate <= 1.03 * rmax):
        cx.report("longitude-daily-rate", p, "longitude moves %.8f deg from JDE %r to +1 day; Keplerian extremes %.8f .. %.8f (3 %%)"
                  % (rate, jde, rmin, rmax), jde, gcall)
    # --- Kepler's equation on the mean elements
    kl, kb, kr = kepler_position(ll, a, ecc, inc, node, arg)
    tol = KEPLER_TOL_DEG[p]
    if abs(wrap180(kl - lon)) > tol or abs(kb - lat) > tol:
        cx.report("kepler-agreement-angle", p, "VSOP (L,B) = (%.5f, %.5f), Kepler on mean elements (%.5f, %.5f): more than %.2f deg at JDE %r"
                  % (lon, lat, kl, kb, tol, jde), jde, gcall)
    if abs(kr / r - 1.0) > 0.01:
        cx.report("kepler-agreement-radius", p, "VSOP r = %.8f, Kepler on mean elements %.8f: more than 1 %% at JDE %r" % (r, kr, jde), jde, gcall)
    # the same through the library's own solver of Kepler's equation (mean anomaly as the Angle L - arg - node)
    kcall = "kepler_equation(%r, Angle(%r))" % (ecc, float(mean_anom))
    try:
        big_e, v = cx.C.kepler_equation(ecc, mean_anom); cx.n += 1
        u = math.radians(arg + float(v))
        ll2 = math.degrees(math.radians(node) + math.atan2(math.sin(u) * math.cos(math.radians(inc)), math.cos(u))) % 360.0
        lb2 = math.degrees(math.asin(math.sin(u) * math.sin(math.radians(inc))))
        lr2 = a * (1 - ecc * math.cos(math.radians(float(big_e))))
        if abs(wrap180(ll2 - lon)) > tol or abs(lb2 - lat) > tol or abs(lr2 / r - 1.0) > 0.01:
            cx.report("kepler-agreement-library-solver", p, "VSOP (L,B,r) = (%.5f, %.5f, %.6f); the library's %s on its mean elements gives (%.5f, %.5f, %.6f): "
                      "more than %.2f deg / 1 %% at JDE %r (an independent solver gives (%.5f, %.5f, %.6f))"
                      % (lon, lat, r, kcall, ll2, lb2, lr2, tol, jde, kl, kb, kr), jde, kcall)
    except Exception as ex:
        cx.report("kepler-agreement-library-solver", p, "%s raises %r at JDE %r" % (kcall, ex, jde), jde, kcall)
    # --- evaluator vs exactly rounded direct double sum of the same tables
    if full:
        dl, db, dr = direct_sum(m.VSOP87_L, t), direct_sum(m.VSOP87_B, t), direct_sum(m.VSOP87_R, t)
        # the property's 1e-11 rad, literally.  The unreduced longitude series reaches 6.5e4 rad (Mercury at the ends of
        # the range), where one ulp is 7.3e-12 rad; the library's plain left-to-right summation of ~1500 terms, the
        # Horner step in t and the radian -> degree -> reduction path accumulate up to ~30 ulp there (2.1e-10 rad =
        # 4e-5 arcsec), more than the literal number.  That situation - and only that - is the known finding
        # direct-sum-longitude-summation-rounding (envelope: deviation <= 64 ulp of the unreduced sum).
        dev_l = abs(math.remainder(math.radians(lon) - dl, 2 * math.pi))
        if dev_l > 1e-11:
            ul = math.ulp(abs(dl))
            key = "direct-sum-longitude-summation-rounding" if dev_l <= 64 * ul else "direct-sum-longitude"
            cx.report(key, p, "evaluator L = %.15g rad, direct sum %.15g rad (mod 2 pi): %.3g rad apart (> 1e-11; ulp of the unreduced sum %.3g) at JDE %r"
                      % (math.radians(lon), math.remainder(dl, 2 * math.pi) % (2 * math.pi), dev_l, ul, jde), jde, gcall)
        if abs(math.radians(lat) - db) > 1e-11:
            cx.report("direct-sum-latitude", p, "evaluator B = %.15g rad, direct sum %.15g rad at JDE %r" % (math.radians(lat), db, jde), jde, gcall)
        if abs(r - dr) > 1e-11:
            cx.report("direct-sum-radius", p, "evaluator R = %.15g, direct sum %.15g at JDE %r" % (r, dr, jde), jde, gcall)
        if p == "Earth" and "lon-range-geometric-j2000" in vs:
            jl, jb, jr = vs["lon-range-geometric-j2000"]
            e0 = cls.geometric_heliocentric_position_j2000(e, False); cx.n += 1
            d0 = direct_sum(m.VSOP87_L_J2000, t)
            dev0 = abs(math.remainder(e0[0].rad() - d0, 2 * math.pi)); u0 = math.ulp(abs(d0))
            if dev0 > 1e-11 or abs(e0[1].rad() - direct_sum(m.VSOP87_B_J2000, t)) > 1e-11:
                key = ("direct-sum-longitude-summation-rounding"
                       if (dev0 <= 64 * u0 and abs(e0[1].rad() - direct_sum(m.VSOP87_B_J2000, t)) <= 1e-11) else "direct-sum-longitude")
                cx.report(key, p, "J2000 tables: evaluator (%r, %r) vs direct sum at JDE %r (%.3g rad apart, ulp %.3g)" % (float(e0[0]), float(e0[1]), jde, dev0, u0),
                          jde, "Earth.geometric_heliocentric_position_j2000(Epoch(%r), False)" % jde)
        v0 = vs.get("lon-range-vsop_pos")
        if v0 and (abs(wrap180(v0[0] - lon)) > 1e-12 or abs(v0[1] - lat) > 1e-12 or abs(v0[2] - r) > 1e-12):
            cx.report("wrapper-is-vsop_pos", p, "wrapper without FK5 gives (%r, %r, %r), vsop_pos on the module tables (%r, %r, %r) at JDE %r"
                      % (lon, lat, r, v0[0], v0[1], v0[2], jde), jde, gcall)
    # --- FK5 correction: form and size
    g1 = vs.get("lon-range-geometric-fk5")
    if g1:
        lam = math.radians(lon - 1.397 * T - 0.00031 * T * T)
        want_dl = -0.09033 + 0.03916 * (math.cos(lam) + math.sin(lam)) * math.tan(math.radians(lat))
        want_db = 0.03916 * (math.cos(lam) - math.sin(lam))
        got_dl, got_db = wrap180(g1[0] - lon) * 3600.0, (g1[1] - lat) * 3600.0
        fcall = "%s.geometric_heliocentric_position(Epoch(%r), True)" % (p, jde)
        if abs(got_dl - want_dl) > 2e-6 or abs(got_db - want_db) > 2e-6 or g1[2] != r:
            cx.report("fk5-correction-form", p, "FK5 correction (dL, dB) = (%.7f, %.7f) arcsec, formula gives (%.7f, %.7f) at JDE %r"
                      % (got_dl, got_db, want_dl, want_db, jde), jde, fcall)
        if abs(got_dl) > 0.09033 + 0.03916 * math.sqrt(2) * abs(math.tan(math.radians(lat))) + 2e-6 \
                or abs(got_db) > 0.03916 * math.sqrt(2) + 2e-6:
            cx.report("fk5-correction-size", p, "FK5 correction (dL, dB) = (%.7f, %.7f) arcsec larger than documented at JDE %r"
                      % (got_dl, got_db, jde), jde, fcall)
        # --- aberration and nutation
        a0, a1 = vs.get("lon-range-apparent-nonutation"), vs.get("lon-range-apparent")
        if a0:
            got = wrap180(a0[0] - g1[0]) * 3600.0
            if abs(got + 20.4898 / r) > 2e-6 or a0[1] != g1[1] or a0[2] != r:
                cx.report("aberration-size", p, "aberration in longitude %.7f arcsec, documented -20.4898/r = %.7f at JDE %r (latitude/radius must not change)"
                          % (got, -20.4898 / r, jde), jde, "apparent_vsop_pos(Epoch(%r), VSOP87_L, VSOP87_B, VSOP87_R, False)" % jde)
        if a0 and a1:
            got = wrap180(a1[0] - a0[0]) * 3600.0
            nut = float(cx.C.nutation_longitude(e)) * 3600.0
            if abs(got - nut) > 2e-6 or abs(got) > 25.0:
                cx.report("nutation-size", p, "nutation applied to the longitude %.7f arcsec, nutation_longitude gives %.7f at JDE %r"
                          % (got, nut, jde), jde, "%s.apparent_heliocentric_position(Epoch(%r))" % (p, jde))


def check_constants(cx, p):
    m, cls = cx.planet(p)
    cx.n += 3
    names = ["VSOP87_L", "VSOP87_B", "VSOP87_R", "ORBITAL_ELEM", "ORBITAL_ELEM_J2000"] + \
            (["VSOP87_L_J2000", "VSOP87_B_J2000"] if p == "Earth" else [])
    h = hashlib.sha256()
    for nm in names:
        h.update(nm.encode()); h.update(repr(getattr(m, nm)).encode())
    call0 = "(VSOP87_L[1][0] + ORBITAL_ELEM[0] + ORBITAL_ELEM[1] + ORBITAL_ELEM_J2000[0])"
    if h.hexdigest()[:24] != TABLE_FINGERPRINT[p]:
        cx.report("table-fingerprint", p, "VSOP87_* / ORBITAL_ELEM* tables differ from the ones the property was verified on (sha256 %s, expected %s)"
                  % (h.hexdigest()[:24], TABLE_FINGERPRINT[p]), None, call0)
    l1 = m.VSOP87_L[1][0]
    rate_series = l1[0] / 1e8 * (180.0 / math.pi) / 10.0       # degrees per century
    rate_table = m.ORBITAL_ELEM[0][1]
    if l1[1] != 0.0 or l1[2] != 0.0 or abs(rate_series / rate_table - 1.0) > 1e-6:
        cx.report("mean-longitude-rate", p, "series L1[0] = %r gives %.7f deg/century, element table %.7f (more than 1e-6)"
                  % (l1, rate_series, rate_table), None, call0)
    if p == "Earth":
        l1j = m.VSOP87_L_J2000[1][0]
        if abs(l1j[0] / 1e8 * (180.0 / math.pi) / 10.0 / m.ORBITAL_ELEM_J2000[0][1] - 1.0) > 1e-6:
            cx.report("mean-longitude-rate", p, "J2000 series L1[0] = %r vs ORBITAL_ELEM_J2000 rate %r" % (l1j, m.ORBITAL_ELEM_J2000[0][1]), None, call0)
    n = math.radians(m.ORBITAL_ELEM_J2000[0][1]) / 36525.0     # sidereal mean motion, rad/day
    a = m.ORBITAL_ELEM[1][0]
    rel = n * n * a ** 3 / GAUSS_K ** 2 - 1.0
    if abs(rel) > THIRD_LAW_TOL[p]:
        cx.report("kepler-third-law", p, "n^2 a^3 / k^2 - 1 = %.3g (n = %.9g rad/day, a = %.9g AU), allowed %.1g"
                  % (rel, n, a, THIRD_LAW_TOL[p]), None, call0)


def find_zero_crossing(cx, p, jde0):
    """an epoch after jde0 at which the FK5-free longitude passes through 0/360; returns (jde, rate deg/day)"""
    m, cls = cx.planet(p)
    f = lambda j: wrap180(float(cls.geometric_heliocentric_position(cx.Epoch(j), False)[0]))
    period = 360.0 / (m.ORBITAL_ELEM[0][1] / 36525.0)
    step = period / 16.0
    a, fa = jde0, f(jde0)
    for _ in range(40):
        b = a + step; fb = f(b); cx.n += 1
        if fa < 0.0 <= fb and fb - fa < 180.0: break
        a, fa = b, fb
    else:
        return None
    for _ in range(60):
        mid = 0.5 * (a + b); fm = f(mid); cx.n += 1
        if fm < 0.0: a, fa = mid, fm
        else: b, fb = mid, fm
        if b - a < 1e-9 * period: break
    rate = m.ORBITAL_ELEM[0][1] / 36525.0
    return b, rate


def check_seam(cx, p, jde0):
    """probe all variants where the series longitude is 0 .. 40 arcsec past the seam (the FK5
    correction -0.09'' and the aberration/nutation -20''/r +-17'' then reach below 0)"""
    z = find_zero_crossing(cx, p, jde0)
    if z is None: return 0
    jz, rate = z
    k = 0
    for asec in (0.0, 0.01, 0.03, 0.06, 0.085, 0.1, 0.5, 2.0, 8.0, 15.0, 19.0, 21.0, 30.0, 40.0, -0.05, -1.0):
        j = jz + asec * ASEC / rate
        if j < jde_of_year(-2000) or j > jde_of_year(4000): continue
        check_ranges(cx, p, j); k += 1; cx.nontriv += 1
    return k


def check_continuity(cx, p, jde, dt_days):
    """1-second (dt) steps: the position moves by no more than the fastest Keplerian motion allows"""
    m, cls = cx.planet(p)
    e0, e1 = cx.Epoch(jde), cx.Epoch(jde + dt_days)
    dt = e1.jde() - e0.jde()
    if dt <= 0: return
    l0, b0, r0 = cls.geometric_heliocentric_position(e0, False)
    l1, b1, r1 = cls.geometric_heliocentric_position(e1, False)
    cx.n += 2; cx.nontriv += 1
    ll, a, ecc, inc, node, arg = cls.orbital_elements_mean_equinox(e0)
    n_mean = m.ORBITAL_ELEM[0][1] / 36525.0
    rmax = n_mean * math.sqrt(1 - ecc * ecc) / (1 - ecc) ** 2
    rmin = n_mean * math.sqrt(1 - ecc * ecc) / (1 + ecc) ** 2
    dl = wrap180(float(l1) - float(l0))
    noise = 1e-9
    call = "%s.geometric_heliocentric_position(Epoch(%r), False)" % (p, jde + dt_days)
    if not (0.97 * rmin * dt - noise <= dl <= 1.03 * rmax * dt + noise):
        cx.report("continuity-longitude", p, "longitude changes by %.3e deg in %.3e days at JDE %r (allowed %.3e .. %.3e)"
                  % (dl, dt, jde, 0.97 * rmin * dt, 1.03 * rmax * dt), jde, call)
    if abs(float(b1) - float(b0)) > 1.03 * rmax * dt + noise or abs(r1 - r0) > 2e-6 * dt * 86400.0 + 1e-12:
        cx.report("continuity-lat-radius", p, "latitude/radius jump (%.3e deg, %.3e AU) in %.3e days at JDE %r"
                  % (float(b1) - float(b0), r1 - r0, dt, jde), jde, call)


NEAR_DELTAS = (1e-9, 3e-9, 8e-9, 3e-8, 3e-7, 3e-6, 1e-5, 3e-4)   # days: 0.1 ms .. 26 s


def check_near_pair(cx, p, jde, delta):
    """two DIFFERENT instants delta days apart evaluated one after the other in this process: each
    result is the direct sum at ITS OWN instant (an evaluator that answers the second call from what
    it computed for the first - a memo keyed by a rounded epoch - fails only on such a pair)"""
    m, cls = cx.planet(p)
    e1 = cx.Epoch(jde); j1 = float(e1.jde())
    e2 = cx.Epoch(j1 + delta); j2 = float(e2.jde())
    if j2 == j1: return
    name = "%s.geometric_heliocentric_position" % p
    call = "(%s(Epoch(%r), False), %s(Epoch(%r), False))[1]" % (name, j1, name, j2)
    try:
        r1 = cls.geometric_heliocentric_position(e1, False)
        r2 = cls.geometric_heliocentric_position(e2, False)
    except Exception as ex:
        cx.report("nearby-epochs-direct-sum", p, "%s raises %r" % (call, ex), j2, call); return
    cx.n += 2; cx.nontriv += 1
    for which, j, (lon, lat, r) in (("first", j1, r1), ("second", j2, r2)):
        t = (j - 2451545.0) / 365250.0
        dl, db, dr = direct_sum(m.VSOP87_L, t), direct_sum(m.VSOP87_B, t), direct_sum(m.VSOP87_R, t)
        dev_l = abs(math.remainder(lon.rad() - dl, 2 * math.pi))
        dev_b, dev_r = abs(lat.rad() - db), abs(r - dr)
        if dev_l > 1e-11 or dev_b > 1e-11 or dev_r > 1e-11:
            known = dev_l <= 64 * math.ulp(abs(dl)) and dev_b <= 1e-11 and dev_r <= 1e-11
            cx.report("direct-sum-longitude-summation-rounding" if known else "nearby-epochs-direct-sum", p,
                      "two instants %.3g day apart evaluated one after the other (JDE %r, then %r): the %s result is "
                      "(%.3g rad, %.3g rad, %.3g AU) away from the direct sum of the tables at its own instant (> 1e-11)"
                      % (j2 - j1, j1, j2, which, dev_l, dev_b, dev_r), j2, call)


def search(rng, tier, deep):
    cx = Ctx()
    thorough = tier == "thorough"
    big = thorough or deep
    n_epochs = 100 if not big else (400 if not thorough else 1500)
    n_seams = 3 if not big else 8
    n_cont = 12 if not big else 200
    n_near = 8 if not big else 48
    lo, hi = jde_of_year(-2000), jde_of_year(4000)
    for p in PLANETS:
        check_constants(cx, p)
        epochs = [lo, hi - 1.0, 2451545.0, 2448976.5, jde_of_year(1992.0)] + [rng.uniform(lo, hi - 1.0) for _ in range(n_epochs)]
        for j in epochs:
            check_epoch(cx, p, j)
        for _ in range(n_seams):
            check_seam(cx, p, rng.uniform(lo, hi - 70000.0))
        for _ in range(n_cont):
            check_continuity(cx, p, rng.uniform(lo, hi - 1.0), 1.0 / 86400.0)
        for k in range(n_near):
            # within a century of J2000, where the unreduced longitude is small and the direct-sum clause is sharp
            check_near_pair(cx, p, rng.uniform(2415020.0, 2488070.0), NEAR_DELTAS[k % len(NEAR_DELTAS)] * rng.uniform(0.8, 1.2))
        if thorough:
            # daily steps over one whole orbit from a random start, the cheap clauses only
            m, cls = cx.planet(p)
            period = 360.0 / (m.ORBITAL_ELEM[0][1] / 36525.0)
            j0 = rng.uniform(lo, hi - period - 2.0)
            ndays = int(period) + 2
            stride = max(1, ndays // 4000)
            for d in range(0, ndays, stride):
                check_epoch(cx, p, j0 + d, full=False)
        if len(cx.findings) > 40: break
    stats = {"evaluations": cx.n, "distinct_nontrivial": cx.nontriv,
             "rule": ("per planet (8): %d random + 5 fixed epochs in -2000..4000 with every clause (range of 5-6 variants, envelopes, "
                      "daily rate, Kepler agreement, exact direct sum, FK5/aberration/nutation form and size, element polynomials); "
                      "%d bisected 0/360 crossings x 16 offsets of 0..40 arcsec; %d one-second steps; %d pairs of instants 0.1 ms .. 26 s apart "
                      "evaluated one after the other, each against the direct sum at its own instant; table constants%s"
                      % (n_epochs, n_seams, n_cont, n_near, "; daily steps over one whole orbit" if thorough else "")),
             "samples": [{"input": {"planet": "Venus", "jde": 2448976.5}, "checked": "all per-epoch clauses"}],
             "finding_counts": cx.keys}
    return cx.findings, stats
