"""C06 — precession is a rigid, invertible rotation, consistent across routes."""
import math
from vlib import common as K
from vlib.impl import load

ID = "C06"
MODULES = K.mods("base", "Angle", "Epoch", "Interpolation", "Coordinates")
REQUIRED = ["precession_equatorial", "precession_ecliptical", "precession_newcomb", "p_motion_equa2eclip",
            "motion_in_space", "mean_obliquity", "orbital_equinox2equinox", "equatorial2ecliptical",
            "ecliptical2equatorial", "Angle.__init__", "Angle.set", "Angle.reduce_deg", "Angle.dms2deg",
            "Angle.reduce_dms", "Angle.rad", "Angle.__iadd__", "Angle.__add__", "Angle.__mul__",
            "Epoch.__init__", "Epoch.__sub__", "Epoch.jde"]
THEOREMS = ["C06_equ_closed_form", "C06_equ_rotation", "C06_equ_identity", "C06_equ_isometry",
            "C06_rotation_facts", "C06_ecl_closed_form", "C06_ecl_rotation", "C06_ecl_identity",
            "C06_ecl_isometry", "C06_newcomb_closed_form", "C06_newcomb_rotation", "C06_newcomb_identity",
            "C06_obliquity", "C06_p_motion_closed_form", "C06_motion_in_space_closed_form", "C06_orbital_closed_form", "C06_orbital_zero_branch",
            "C06_equ_there_and_back", "C06_ecl_there_and_back",
            "C06_newcomb_vs_fk5", "C06_route_first_order", "C06_route_J2000", "C06_orbital_zero_orientation"]
PROOF_TIMEOUT = {"quick": 1500, "thorough": 3000}
EXHAUSTIVE = False
MANIFEST = {
    "category": "proof",
    "text": "T4 (ideal real arithmetic): the regenerated bodies of precession_equatorial / precession_newcomb / precession_ecliptical / mean_obliquity are evaluated symbolically for ALL real epochs, coordinates (every declination, poles included) and proper motions to exact closed forms (every constant and sign pinned; polynomials proved equal to Meeus' by field), and the closed forms are proved to be the rotation Rz.Ry.Rz (Rz.Rx.Rz) of the proper-motion-corrected unit vector: identity at zero interval, dot products preserved exactly, invertible, stored angles in (-360,360). There-and-back: equatorial is EXACTLY the identity (the IAU 1976 reverse-trip polynomials are the exact negatives of the forward ones), ecliptical within 3.44e-7 degree (< the property's 1e-6) for epochs within 5 centuries of J2000 (mismatch polynomials bounded by interval, commutator of rotations, chord <= arc). Newcomb vs FK5 within 0.00132 degree (< 0.005) for epochs 1800-2100 (sum of three interval-bounded angle differences). Equatorial vs ecliptical route: proved within 4.9e-5 degree (< 1e-4) for intervals with one end at J2000 and the other epoch within 5 centuries (rotation level), and to first order for general epochs (angular velocities at zero interval agree within 0.025 arcsec/century); the general finite bound and the orbital round trip are searched on the implementation; bit-exact correspondence model vs implementation every run.",
    "technique": "symbolic evaluation of the generated model in the real-number instance (call-by-value evaluator with characterisation lemmas for Angle(0,0,s), reduce_deg, Angle(x, radians=True)) + field + rotation algebra on unit vectors (atan2 lemmas, congruence mod 360) + bit-exact differential correspondence + property oracle on the sphere",
    "design_ref": "8/C06",
}
EXPLANATION = ("The model of the precession routines regenerated from /repo is evaluated symbolically over the reals for "
               "arbitrary inputs; the result is proved equal to the atan2 coordinates of Rz(z).Ry(-theta).Rz(zeta) "
               "(resp. Rz(p+Pi).Rx(-eta).Rz(-Pi)) applied to the start direction displaced by 100*mu*t, with zeta, z, theta, "
               "eta, Pi, p the published polynomials; hence rigid, invertible, identity at t = 0 at every declination.")
CLAUSES = {
    "precession is a rotation of the unit vector (equatorial, FK5): Rz(z).Ry(-theta).Rz(zeta), all declinations incl. poles, all epochs":
        "proved [ideal, C06_equ_closed_form + C06_equ_rotation]",
    "zero interval is the identity (equatorial, ecliptical, Newcomb)": "proved [ideal, C06_*_identity]; binary64 residual searched at 1e-9 deg for all three (measured 5e-14 deg)",
    "angle between any two stars unchanged": "proved exactly [ideal, C06_equ_isometry, C06_ecl_isometry, C06_rotation_facts]; binary64 1e-9 deg searched",
    "invertible (an inverse rotation exists); unit vectors stay unit vectors": "proved [ideal/spec, C06_rotation_facts]",
    "proper motion displaces the result linearly in elapsed time (it enters as start + 100*mu*t, the argument of the rotation)":
        "proved [ideal, C06_*_rotation: star a d ma md t]; searched in binary64 at 1e-9 deg against the precession of the displaced direction given as ordinary coordinates (a declination carried beyond +-90 deg folded over the pole), including deterministic stars within a few tenths of a degree of either pole with 10 arcsec/yr toward the pole over intervals long enough to cross it, for all three routines",
    "ecliptical precession is Rz(p+Pi).Rx(-eta).Rz(-Pi) with the published eta, Pi, p": "proved [ideal, C06_ecl_closed_form + C06_ecl_rotation]",
    "Newcomb (FK4) variant: same rotation type with Newcomb's polynomials, total (no exception)": "proved [ideal, C06_newcomb_closed_form + C06_newcomb_rotation]",
    "mean obliquity = 23d26'21.448'' + Laskar polynomial": "proved [ideal, C06_obliquity]",
    "there and back returns the start (equatorial 1e-9 deg, ecliptical 1e-6 deg within 5 centuries of J2000)":
        "proved [ideal]: equatorial EXACTLY the start for all epochs and declinations (C06_equ_there_and_back: the reverse-trip polynomials zeta(T+t,-t), z(T+t,-t), theta(T+t,-t) are the exact negatives -z, -zeta, -theta, so the property's 1e-9 deg is purely a binary64 rounding budget; measured 9e-14 deg); ecliptical within a chord of 6e-9 = 3.44e-7 deg < 1e-6 deg for both epochs within 5 centuries of J2000 (C06_ecl_there_and_back: mismatch polynomials bounded by interval, commutator bound 2|eta'||dPi| + |eta'+eta|, chord <= arc); binary64 rounding of both: searched with the property's tolerances; the oracle tests the equatorial pair over +-20 centuries at 1e-9 deg and the ecliptical pair within 5 centuries at 1e-6 deg; Newcomb is not tested there and back: the text does not claim it and Newcomb's polynomials are not an inverse pair (zeta_N(T+t,-t) + z_N(T,t) = 0.001 t^2 (t - 1) arcsec exactly, i.e. 0.018 arcsec = 5e-6 deg at t = 3 centuries; measured residual 4.5e-6 deg within 1800-2100), so a 1e-9 deg check would fail by construction",
    "equatorial route agrees with the ecliptical route through the mean obliquity of each epoch to 1e-4 deg":
        "proved for intervals with ONE END AT J2000 and the other epoch within 5 centuries [spec level, C06_route_J2000: the composed rotation Rx(eps_end) . Recl . Rx(-eps_start) and Requ move every unit vector to places within a chord of 8.5e-7 = 4.9e-5 deg < 1e-4 deg; the nine matrix entries bounded by interval with Taylor models in the one free variable; Requ/Recl/eps are what the generated routines compute by C06_equ/ecl_rotation and C06_obliquity, the conversions being Rx(-/+eps) is property C05]; for general pairs of epochs only the first order is proved [ideal/spec, C06_route_first_order: both routes are the identity at zero interval and their angular velocities there -- Meeus' relations eps' = eta' cos Pi, n = p sin eps + eta' sin Pi cos eps, m = p cos eps - eta' sin Pi sin eps on the three separately coded polynomial sets of the regenerated model -- agree within 0.025 / 0.010 / 0.005 arcsec per century for |T| <= 5 centuries]; the general finite-interval 1e-4 deg bound (both epochs arbitrary within 5 centuries) is unproved (searched, measured maximum 3.35e-5 deg): it needs a certified bound of the angular-velocity mismatch over the two-dimensional (T, t) domain to about 0.005 arcsec/century in quantities of 5000 arcsec/century, and the crude |t| * sup bound (sup = 0.046 arcsec/century at T = -5, t = 10) would give 1.3e-4 deg, above the tolerance",
    "Newcomb within 0.005 deg of FK5 for 1800-2100": "proved [ideal, C06_newcomb_vs_fk5: both epochs in JDE 2378496.5 .. 2488071.5, every declination, chord <= 2.3e-5 = 0.00132 deg < 0.005 deg: sum of the three angle differences (1.6 + 1.7 + 1.4 arcsec, interval on small-coefficient polynomials; outer rotations are isometries, chord <= arc)]; binary64: searched",
    "orbital elements to another equinox and back": "exact closed forms proved for every inclination, retrograde included, and for the three cases of the zero-inclination branch (eta > 0: i = eta, node = Pi + p + 180; eta < 0: i = -eta, node = Pi + p; eta = 0: input orientation) [ideal, C06_orbital_closed_form, C06_orbital_zero_branch: pin every constant]; for i0 = 0 the returned elements are proved to be the right orbit: the frame Rz(node) Rx(i) Rz(arg) equals the ecliptical precession rotation applied to the input frame, forward and backward intervals [C06_orbital_zero_orientation]; the round trip itself unproved (searched).  Reading used by the oracle: the elements return as an ORBIT: inclination, orbit pole (carries sin i * node) and perihelion direction (carries node + argument for small i, node - argument near 180 deg) come back within 1e-9 deg + 3e-9 deg * t^2, t the interval in centuries; the t^2 term is the proved mismatch eta(T+t,-t) + eta(T,t) = -0.00001 t^2 arcsec of the ecliptical polynomials the routine uses (3e-7 deg at 10 centuries, below the text's 1e-6 deg for the ecliptical set); node and argument individually are ill-defined as i -> 0, 180 and are not compared; inclinations 0 .. 179.9999 deg (at exactly 180 deg the node is undefined and the general formulas divide rounding noise by sin(pi) ~ 1e-16: outside the domain), all intervals including zero and sub-day ones; the returned inclination must lie in 0..180.  Exactly i = 0 is treated like every other input (forward, backward and null intervals)",
    "p_motion_equa2eclip, motion_in_space": "exact closed forms proved [ideal, C06_p_motion_closed_form, C06_motion_in_space_closed_form]; searched: finite-difference consistency with the coordinate conversion, zero-time identity, radial motion keeps the direction, vector form r0 + t*v",
    "binary64 rounding of all the above": "unproved (searched with the property's tolerances; correspondence is bit-exact with traced libm)",
}


def proof_files(tier):
    return ["C06_angle.v", "C06_tac.v", "C06_jde.v", "C06_equ.v", "C06_ecl.v", "C06_obl.v", "C06_aux.v", "C06_orb.v",
            "C06_main.v", "C06_back.v", "C06_cmp.v",
            "C06_route_from.v", "C06_route_to.v", "C06_route.v", "C06.v"]


# ----------------------------------------------------------------------------- generators
J2000 = 2451545.0


def r_dir(rng, polecap=90.0):
    """(lon, lat) degrees: uniform on the sphere / within 5 deg of a pole / special values"""
    r = rng.random()
    if r < 0.4:
        lat = math.degrees(math.asin(rng.uniform(-1, 1)))
    elif r < 0.7:
        lat = rng.choice([-1, 1]) * (90 - rng.uniform(0, 5))
    else:
        lat = rng.choice([89.999, -89.999, 89.9999999, -89.9999999, 90.0, -90.0, 85.0, 85.0000001,
                          84.9999999, -85.0, 0.0, 89.5, -89.5, 89.0])
    if abs(lat) > polecap:
        lat = math.copysign(polecap, lat)
    lon = rng.choice([0.0, 359.9999999, 180.0, 90.0, 270.0]) if rng.random() < 0.1 else rng.uniform(0, 360)
    return lon, lat


def r_jd(rng, w=5.0):
    r = rng.random()
    if r < 0.1: return J2000
    if r < 0.2: return J2000 + rng.choice([-w, w]) * 36525
    return J2000 + rng.uniform(-w, w) * 36525


def fmt(x):
    return repr(float(x))


def cases(rng, tier):
    n = 40 if tier == "quick" else 400
    cs = []
    def E(j): return "Epoch(%s)" % fmt(j)
    def A(x): return "Angle(%s)" % fmt(x)
    for _ in range(n):
        ra, dec = r_dir(rng); j0, j1 = r_jd(rng), r_jd(rng)
        ma, md = rng.uniform(-10, 10) / 3600, rng.uniform(-10, 10) / 3600
        k = rng.random()
        pm = "" if k < 0.3 else (", %s, %s" % (A(ma), A(md)) if k < 0.8 else ", %s, %s" % (fmt(ma), fmt(md)))
        cs.append("precession_equatorial(%s, %s, %s, %s%s)" % (E(j0), E(j1), A(ra), A(dec), pm))
        cs.append("precession_ecliptical(%s, %s, %s, %s%s)" % (E(j0), E(j1), A(ra), A(dec), pm))
        cs.append("precession_newcomb(%s, %s, %s, %s%s)" % (E(j0), E(j1), A(ra), A(dec), pm))
        cs.append("mean_obliquity(%s)" % E(j0))
        i0 = rng.choice([rng.uniform(0, 180), 0.5, 1.0, 0.9999999, 90.0, 162.0])
        cs.append("orbital_equinox2equinox(%s, %s, %s, %s, %s)" % (E(j0), E(j1), A(i0), A(rng.uniform(0, 360)), A(rng.uniform(0, 360))))
        ra2, dec2 = r_dir(rng, 89.0)
        cs.append("p_motion_equa2eclip(%s, %s, %s, %s, %s, %s)" % (A(ma), A(md), A(ra2), A(dec2), A(rng.uniform(-80, 80)), A(23.44)))
        cs.append("motion_in_space(%s, %s, %s, %s, %s, %s, %s)" % (A(ra2), A(dec2), fmt(rng.uniform(1, 100)), fmt(rng.uniform(-100, 100)),
                                                                     A(ma), A(md), fmt(rng.uniform(-5000, 5000))))
    cs += ["precession_equatorial(Epoch(2451545.0), Epoch(2462088.69), Angle(41.054063), Angle(49.227750), Angle(0.0001427), Angle(-0.0000249))",
           "precession_equatorial(Epoch(2451545.0), Epoch(2451545.0), Angle(10.0), Angle(89.0))",
           "precession_equatorial(Epoch(2451545.0), Epoch(2415020.5), Angle(10.0), Angle(-89.5))",
           "precession_equatorial(Epoch(2451545.0), Epoch(2488070.0), Angle(10.0), Angle(90.0))",
           "precession_equatorial(Epoch(2451545.0), Epoch(2488070.0), Angle(10.0), Angle(85.0))",
           "precession_equatorial(Epoch(2451545.0), Epoch(2488070.0), Angle(10.0), Angle(85.00000000000001))",
           "precession_newcomb(Epoch(2415020.3135), Epoch(2433282.4235), Angle(10.0), Angle(89.0))",
           "precession_newcomb(Epoch(1950, 1, 1.0), Epoch(2000, 1, 1.5), Angle(41.054063), Angle(49.227750))",
           "precession_ecliptical(Epoch(2451545.0), Epoch(1643074.5), Angle(149.48194), Angle(1.76549))",
           "precession_ecliptical(Epoch(2451545.0), Epoch(2451545.0), Angle(149.48194), Angle(90.0))",
           "precession_equatorial(2451545.0, Epoch(2451545.0), Angle(1.0), Angle(1.0))",
           "precession_equatorial(Epoch(2451545.0), Epoch(2451545.0), 1.0, Angle(1.0))",
           "precession_equatorial(Epoch(2451545.0), Epoch(2451546.0), Angle(1.0), Angle(1.0), 'a', 0.0)",
           "precession_ecliptical(Epoch(2451545.0), Epoch(2451546.0), Angle(1.0), 1.0)",
           "precession_newcomb(Epoch(2451545.0), 2451546.0, Angle(1.0), Angle(1.0))",
           "mean_obliquity(1987, 4, 10)", "mean_obliquity(2000, 1, 1.5)", "mean_obliquity(Epoch(-1000, 1, 1.0))",
           "orbital_equinox2equinox(Epoch(2358042.5305), Epoch(2433282.4235), Angle(47.122), Angle(151.4486), Angle(45.7481))",
           "orbital_equinox2equinox(Epoch(2358042.5305), 2433282.4235, Angle(47.122), Angle(151.4486), Angle(45.7481))",
           "p_motion_equa2eclip(Angle(0.0001), Angle(0.0002), Angle(10.0), Angle(20.0), 5.0, Angle(23.44))",
           "motion_in_space(Angle(101.286962), Angle(-16.716108), 2.64, -7.6, Angle(-0.000151), Angle(-0.000335), -2000.0)",
           "motion_in_space(Angle(101.286962), Angle(-16.716108), 2.64, -7.6, Angle(-0.000151), Angle(-0.000335), 0)",
           "motion_in_space(Angle(101.286962), -16.716108, 2.64, -7.6, Angle(-0.000151), Angle(-0.000335), 0)"]
    return cs


# ----------------------------------------------------------------------------- oracle
def vec(lon, lat):
    l, b = math.radians(float(lon)), math.radians(float(lat))
    return (math.cos(b) * math.cos(l), math.cos(b) * math.sin(l), math.sin(b))


def sep(u, v):
    """angular distance on the sphere, degrees (atan2 form: accurate at every distance)"""
    cx = (u[1] * v[2] - u[2] * v[1], u[2] * v[0] - u[0] * v[2], u[0] * v[1] - u[1] * v[0])
    return math.degrees(math.atan2(math.sqrt(sum(c * c for c in cx)), sum(a * b for a, b in zip(u, v))))


def orbit_frame(i, arg, node):
    """(perihelion direction, orbit pole) of the orbit with inclination i, argument of perihelion arg and
    longitude of the node, degrees: columns 1 and 3 of Rz(node) Rx(i) Rz(arg)"""
    i, w, n = math.radians(i), math.radians(arg), math.radians(node)
    ci, si, cw, sw, cn, sn = math.cos(i), math.sin(i), math.cos(w), math.sin(w), math.cos(n), math.sin(n)
    P = (cn * cw - sn * ci * sw, sn * cw + cn * ci * sw, si * sw)
    N = (sn * si, -cn * si, ci)
    return P, N


def fold_dir(lon, lat):
    """the same direction with the latitude folded into [-90, 90] (a latitude beyond a pole means that the
    star has passed over it: latitude 180 - lat on the opposite meridian)"""
    lat = (lat + 180.0) % 360.0 - 180.0
    if lat > 90.0: lon, lat = lon + 180.0, 180.0 - lat
    elif lat < -90.0: lon, lat = lon + 180.0, -180.0 - lat
    return lon % 360.0, lat


def dang(x, y):
    return abs((float(x) - float(y) + 180.0) % 360.0 - 180.0)


PRE = "PYTHONPATH=/repo /venv/bin/python -c \"from pymeeus.Coordinates import *; from pymeeus.Epoch import Epoch; from pymeeus.Angle import Angle; print(%s)\""


def search(rng, tier, deep):
    m = load(["Angle", "Epoch", "Coordinates"])
    Angle, Epoch, C = m["Angle"].Angle, m["Epoch"].Epoch, m["Coordinates"]
    findings, seen = [], {}
    stat = {"n": 0, "nontriv": 0}

    def E(j): return "Epoch(%s)" % fmt(j)
    def A(x): return "Angle(%s)" % fmt(x)

    def report(key, what, inp, expr):
        seen[key] = seen.get(key, 0) + 1
        if seen[key] <= 3:
            findings.append({"key": key, "what": what, "input": inp, "replay": PRE % expr})

    def call(key, f, expr, *a):
        stat["n"] += 1
        try:
            return f(*a)
        except Exception as ex:     # the routines are total on well-typed input
            report(key + "-raises", "%s raises %s: %s" % (expr, type(ex).__name__, ex), expr, expr)
            return None

    # proper motion carrying a star over a pole (deterministic, every run, all three routines): stars within a
    # few tenths of a degree (and up to 5 deg) of either pole, 10 arcsec/yr toward the pole, intervals long enough
    # to cross it; the result must be the precession of the linearly displaced direction (1e-9 deg)
    AS_ = 1.0 / 3600.0
    for name, fn in (("equ", C.precession_equatorial), ("newcomb", C.precession_newcomb), ("ecl", C.precession_ecliptical)):
        cen_ = 36524.2199 if name == "newcomb" else 36525.0
        for (lo, la) in ((37.95, 89.26), (37.95, 89.95), (200.0, 88.2), (123.0, 85.5), (0.0, 89.999),
                         (317.0, -89.4), (80.0, -88.0), (250.0, -85.1), (180.0, -89.95)):
            sgn = 1.0 if la > 0 else -1.0
            for (mua, mud) in ((0.0, 10.0 * sgn), (3.0, 6.5 * sgn), (-8.0, 10.0 * sgn), (10.0, 0.5 * sgn)):
                for (c0, c1) in ((0.0, 2.0), (-1.0, 3.0), (-4.0, 1.0), (5.0, -5.0), (-5.0, 5.0), (0.0, 0.5), (-20.0, -10.0)):
                    ja, jb = J2000 + 36525.0 * c0, J2000 + 36525.0 * c1
                    t_ = (jb - ja) / cen_
                    ma_, md_ = mua * AS_, mud * AS_
                    xp = "%s(%s, %s, %s, %s, %s, %s)" % (fn.__name__, E(ja), E(jb), A(lo), A(la), A(ma_), A(md_))
                    qlo, qla = fold_dir(lo + 100 * ma_ * t_, la + 100 * md_ * t_)
                    xq = "%s(%s, %s, %s, %s)" % (fn.__name__, E(ja), E(jb), A(qlo), A(qla))
                    p1 = call(name, fn, xp, Epoch(ja), Epoch(jb), Angle(lo), Angle(la), Angle(ma_), Angle(md_))
                    p2 = call(name, fn, xq, Epoch(ja), Epoch(jb), Angle(qlo), Angle(qla))
                    if p1 is not None and p2 is not None:
                        d = sep(vec(*p1), vec(*p2))
                        if not d <= 1e-9:
                            report(name + "-proper-motion-linear",
                                   "%s differs by %.3g deg from the start displaced by mu*(elapsed years) = (%s, %s)%s: %s"
                                   % (xp, d, fmt(lo + 100 * ma_ * t_), fmt(la + 100 * md_ * t_),
                                      " -- the star passes over the pole" if abs(la + 100 * md_ * t_) > 90 else "", xq),
                                   [xp, xq], "[%s, %s]" % (xp, xq))
    full = deep or tier == "thorough"
    N = 6000 if full else 500
    for it in range(N):
        ra, dec = r_dir(rng)                       # equatorial clauses: every declination, poles included
        lon0, lat0 = ra, dec                       # ecliptical clauses too: latitude by atan2, poles included
        j0, j1 = r_jd(rng), r_jd(rng)              # within 5 centuries of J2000
        w0, w1 = r_jd(rng, 20.0), r_jd(rng, 20.0)  # wider, for the exact-rotation clauses
        e0, e1, f0, f1 = Epoch(j0), Epoch(j1), Epoch(w0), Epoch(w1)
        stat["nontriv"] += 1
        # idtol: the text's general figure 1e-9 deg for the exact clauses (identity, proper motion = displaced
        # start); backtol: there and back, 1e-9 equatorial / 1e-6 ecliptical (the text's figures)
        for name, fn, backtol, lo, la in (("equ", C.precession_equatorial, 1e-9, ra, dec),
                                          ("newcomb", C.precession_newcomb, None, ra, dec),
                                          ("ecl", C.precession_ecliptical, 1e-6, lon0, lat0)):
            fname = fn.__name__
            idtol = 1e-9
            # zero interval = identity
            x = "%s(%s, %s, %s, %s)" % (fname, E(w0), E(w0), A(lo), A(la))
            r = call(name, fn, x, f0, f0, Angle(lo), Angle(la))
            if r is not None:
                d = sep(vec(*r), vec(lo, la))
                if not d <= idtol:
                    report(name + "-identity", "%s moves the direction by %.3g deg (zero interval, tolerance %g)" % (x, d, idtol), x, x)
            # rigid: angle between two stars unchanged (wide epoch range)
            lo2, la2 = r_dir(rng)
            x1 = "%s(%s, %s, %s, %s)" % (fname, E(w0), E(w1), A(lo), A(la))
            x2 = "%s(%s, %s, %s, %s)" % (fname, E(w0), E(w1), A(lo2), A(la2))
            r1 = call(name, fn, x1, f0, f1, Angle(lo), Angle(la))
            r2 = call(name, fn, x2, f0, f1, Angle(lo2), Angle(la2))
            if r1 is not None and r2 is not None:
                d = abs(sep(vec(*r1), vec(*r2)) - sep(vec(lo, la), vec(lo2, la2)))
                if not d <= 1e-9:
                    report(name + "-angle-preserved", "angle between two stars changes by %.3g deg (> 1e-9): %s and %s" % (d, x1, x2),
                           [x1, x2], "[%s, %s]" % (x1, x2))
                for rr, xx in ((r1, x1), (r2, x2)):
                    if not (-360 < float(rr[0]) < 360 and -90.0 <= float(rr[1]) <= 90.0):
                        report(name + "-range", "%s returns %r" % (xx, rr), xx, xx)
            # proper motion: linear in elapsed time, i.e. the start is displaced by 100*mu*t (t in centuries)
            ma, md = rng.uniform(-10, 10) / 3600, rng.uniform(-10, 10) / 3600
            if rng.random() < 0.2: ma, md = rng.choice([(10 / 3600, 0.0), (0.0, -10 / 3600), (10 / 3600, 10 / 3600)])
            cen = 36524.2199 if name == "newcomb" else 36525.0
            t = (j1 - j0) / cen
            la_s = la
            xp = "%s(%s, %s, %s, %s, %s, %s)" % (fname, E(j0), E(j1), A(lo), A(la_s), A(ma), A(md))
            # the displaced start as ordinary coordinates (a latitude carried beyond a pole folded back): the
            # reference call never sees a latitude outside [-90, 90]
            qlo, qla = fold_dir(lo + 100 * ma * t, la_s + 100 * md * t)
            xq = "%s(%s, %s, %s, %s)" % (fname, E(j0), E(j1), A(qlo), A(qla))
            p1 = call(name, fn, xp, e0, e1, Angle(lo), Angle(la_s), Angle(ma), Angle(md))
            p2 = call(name, fn, xq, e0, e1, Angle(qlo), Angle(qla))
            if p1 is not None and p2 is not None:
                d = sep(vec(*p1), vec(*p2))
                if not d <= idtol:
                    report(name + "-proper-motion-linear", "%s differs by %.3g deg from the start displaced by mu*(elapsed years): %s" % (xp, d, xq),
                           [xp, xq], "[%s, %s]" % (xp, xq))
                # mu given as float instead of Angle: same result
                p3 = call(name, fn, xp, e0, e1, Angle(lo), Angle(la_s), ma, md)
                if p3 is not None and sep(vec(*p1), vec(*p3)) > 1e-12:
                    report(name + "-proper-motion-float", "%s: float proper motion gives a different result" % xp, xp, xp)
            # doubling mu or the elapsed time doubles the displacement (moderate declinations)
            if abs(la) < 60 and abs(t) > 0.05:
                p0 = call(name, fn, x, e0, e1, Angle(lo), Angle(la))
                pd = call(name, fn, x, e0, e1, Angle(lo), Angle(la), Angle(2 * ma), Angle(2 * md))
                if p0 is not None and p1 is not None and pd is not None:
                    d1, d2 = sep(vec(*p1), vec(*p0)), sep(vec(*pd), vec(*p0))
                    if d1 > 1e-6 and not abs(d2 - 2 * d1) <= 0.02 * d1 + 1e-9:
                        report(name + "-proper-motion-doubling", "%s: displacement %.6g deg for mu, %.6g deg for 2 mu" % (xp, d1, d2), xp, xp)
            # there and back: equatorial over the wide range (+-20 centuries: the reverse-trip polynomials are exact
            # inverses, C06_equ_there_and_back), ecliptical within 5 centuries of J2000 (the text's range);
            # Newcomb is not claimed by the text and is not an inverse pair (see CLAUSES)
            if backtol is not None:
                ja, jb, ea, eb = (w0, w1, f0, f1) if name == "equ" else (j0, j1, e0, e1)
                xa = "%s(%s, %s, %s, %s)" % (fname, E(ja), E(jb), A(lo), A(la))
                ra1 = call(name, fn, xa, ea, eb, Angle(lo), Angle(la))
                if ra1 is not None:
                    xb = "%s(%s, %s, *%s)" % (fname, E(jb), E(ja), xa)
                    rb = call(name, fn, xb, eb, ea, ra1[0], ra1[1])
                    if rb is not None:
                        d = sep(vec(*rb), vec(lo, la))
                        if not d <= backtol:
                            report(name + "-there-and-back", "%s ends %.3g deg from the start (%s, %s), tolerance %g" % (xb, d, fmt(lo), fmt(la), backtol), xb, xb)
        # equatorial route vs ecliptical route through the mean obliquity of each epoch
        xr = ("ecliptical2equatorial(*precession_ecliptical(%s, %s, *equatorial2ecliptical(%s, %s, mean_obliquity(%s))), mean_obliquity(%s))"
              % (E(j0), E(j1), A(ra), A(lat0), E(j0), E(j1)))
        try:
            stat["n"] += 6
            lo_, la_ = C.equatorial2ecliptical(Angle(ra), Angle(lat0), C.mean_obliquity(e0))
            lo1, la1 = C.precession_ecliptical(e0, e1, lo_, la_)
            rr, dd = C.ecliptical2equatorial(lo1, la1, C.mean_obliquity(e1))
            rq = C.precession_equatorial(e0, e1, Angle(ra), Angle(lat0))
            d = sep(vec(rr, dd), vec(*rq))
            if not d <= 1e-4:
                report("route-equatorial-vs-ecliptical", "ecliptical route differs by %.3g deg (> 1e-4) from precession_equatorial(%s, %s, %s, %s)"
                       % (d, E(j0), E(j1), A(ra), A(lat0)), xr, "[%s, precession_equatorial(%s, %s, %s, %s)]" % (xr, E(j0), E(j1), A(ra), A(lat0)))
        except Exception as ex:
            report("route-raises", "%s raises %r" % (xr, ex), xr, xr)
        # Newcomb vs FK5, epochs in 1800-2100
        k0 = 2378496.5 + rng.uniform(0, 300 * 365.25); k1 = 2378496.5 + rng.uniform(0, 300 * 365.25)
        xn = "precession_newcomb(%s, %s, %s, %s)" % (E(k0), E(k1), A(ra), A(dec))
        xf = "precession_equatorial(%s, %s, %s, %s)" % (E(k0), E(k1), A(ra), A(dec))
        rn = call("newcomb", C.precession_newcomb, xn, Epoch(k0), Epoch(k1), Angle(ra), Angle(dec))
        rf = call("equ", C.precession_equatorial, xf, Epoch(k0), Epoch(k1), Angle(ra), Angle(dec))
        if rn is not None and rf is not None:
            d = sep(vec(*rn), vec(*rf))
            if not d <= 0.005:
                report("newcomb-vs-fk5", "%s is %.3g deg (> 0.005) from %s" % (xn, d, xf), [xn, xf], "[%s, %s]" % (xn, xf))
        # orbital elements to another equinox and back.  Reading: the elements return as an ORBIT -- the
        # inclination, the orbit pole (which carries sin i * node) and the perihelion direction (which carries
        # node + argument for small i, node - argument near 180, argument itself in between); node and argument
        # individually are ill-defined as i -> 0 or 180.  Tolerance 1e-9 deg + 3e-9 deg * t^2 (t = interval in
        # centuries): the second term is the proved mismatch of the ecliptical polynomials used by the routine,
        # eta(T+t,-t) + eta(T,t) = -0.00001 t^2 arcsec = 2.78e-9 deg t^2 (3e-7 deg at 10 centuries, below the
        # text's 1e-6 deg for the ecliptical set).  No interval is skipped (zero and sub-day intervals included).
        r = rng.random()
        i0 = (rng.uniform(1.0, 89.5) if r < 0.4 else rng.uniform(90.0, 179.0) if r < 0.65 else
              rng.uniform(0.001, 1.0) if r < 0.8 else rng.uniform(179.0, 179.999) if r < 0.87 else
              rng.choice([0.5, 1.0, 0.9999999, 1e-4, 1e-6, 90.0, 162.0, 179.9999, 0.0]))
        a0, o0 = rng.uniform(0, 360), rng.uniform(0, 360)
        r = rng.random()
        jo1 = j1 if r < 0.8 else (j0 if r < 0.85 else j0 + rng.uniform(-1.0, 1.0))
        xo = "orbital_equinox2equinox(%s, %s, %s, %s, %s)" % (E(j0), E(jo1), A(i0), A(a0), A(o0))
        xo2 = "orbital_equinox2equinox(%s, %s, *%s)" % (E(jo1), E(j0), xo)
        o = call("orbital", C.orbital_equinox2equinox, xo, e0, Epoch(jo1), Angle(i0), Angle(a0), Angle(o0))
        if o is not None:
            ob = call("orbital", C.orbital_equinox2equinox, xo2, Epoch(jo1), e0, *o)
            if ob is not None:
                tc = (jo1 - j0) / 36525.0
                tol = 1e-9 + 3e-9 * tc * tc
                P0, N0 = orbit_frame(i0, a0, o0)
                P2, N2 = orbit_frame(float(ob[0]), float(ob[1]), float(ob[2]))
                di, dn, dp = dang(ob[0], i0), sep(N2, N0), sep(P2, P0)
                if not (di <= tol and dn <= tol and dp <= tol and 0.0 <= float(o[0]) <= 180.0):
                    report("orbital-roundtrip", "%s returns (%s, %s, %s), started from (%s, %s, %s): inclination off by %.3g, orbit pole by %.3g, "
                           "perihelion direction by %.3g deg (tolerance %.3g); intermediate inclination %s"
                           % (xo2, fmt(ob[0]), fmt(ob[1]), fmt(ob[2]), fmt(i0), fmt(a0), fmt(o0), di, dn, dp, tol, fmt(o[0])), xo2, xo2)
        # proper-motion conversion equatorial -> ecliptical: consistent with the coordinate conversion
        ra2, dec2 = rng.uniform(0, 360), rng.uniform(-70, 70)
        eps = C.mean_obliquity(e0)
        ma, md = rng.uniform(-10, 10) / 3600, rng.uniform(-10, 10) / 3600
        lo_, la_ = C.equatorial2ecliptical(Angle(ra2), Angle(dec2), eps)
        if abs(float(la_)) < 75:
            xm = "p_motion_equa2eclip(%s, %s, %s, %s, %s, mean_obliquity(%s))" % (A(ma), A(md), A(ra2), A(dec2), A(float(la_)), E(j0))
            pm = call("pmotion", C.p_motion_equa2eclip, xm, Angle(ma), Angle(md), Angle(ra2), Angle(dec2), la_, eps)
            if pm is not None:
                h = 1.0   # years
                lb, bb = C.equatorial2ecliptical(Angle(ra2 + ma * h), Angle(dec2 + md * h), eps)
                la_b, bb_b = C.equatorial2ecliptical(Angle(ra2 - ma * h), Angle(dec2 - md * h), eps)
                dlon = math.radians((float(lb) - float(la_b) + 180) % 360 - 180) / (2 * h)
                dlat = math.radians(float(bb) - float(bb_b)) / (2 * h)
                scale = math.radians(math.hypot(ma, md)) + 1e-12
                if not (abs(pm[0] - dlon) <= 1e-4 * scale / math.cos(math.radians(float(la_))) + 1e-12 and abs(pm[1] - dlat) <= 1e-4 * scale + 1e-12):
                    report("p-motion-equa2eclip", "%s = (%.6g, %.6g) rad/yr, the coordinate conversion moves by (%.6g, %.6g) rad/yr" % (xm, pm[0], pm[1], dlon, dlat), xm, xm)
        # motion in space: time 0 = identity; purely radial motion keeps the direction; small time = linear proper motion
        dist, vel = rng.uniform(1, 100), rng.uniform(-100, 100)
        xs = "motion_in_space(%s, %s, %s, %s, %s, %s, 0.0)" % (A(ra2), A(dec2), fmt(dist), fmt(vel), A(ma), A(md))
        s0 = call("motion", C.motion_in_space, xs, Angle(ra2), Angle(dec2), dist, vel, Angle(ma), Angle(md), 0.0)
        if s0 is not None and sep(vec(*s0), vec(ra2, dec2)) > 1e-9:
            report("motion-in-space-zero-time", "%s moves the star by %.3g deg" % (xs, sep(vec(*s0), vec(ra2, dec2))), xs, xs)
        tm = rng.uniform(-3000, 3000)
        xs = "motion_in_space(%s, %s, %s, %s, Angle(0.0), Angle(0.0), %s)" % (A(ra2), A(dec2), fmt(dist), fmt(vel), fmt(tm))
        if dist * 977792.0 > abs(vel * tm) * 2:      # the star does not pass through the observer
            s1 = call("motion", C.motion_in_space, xs, Angle(ra2), Angle(dec2), dist, vel, Angle(0.0), Angle(0.0), tm)
            if s1 is not None and sep(vec(*s1), vec(ra2, dec2)) > 1e-9:
                report("motion-in-space-radial", "%s changes the direction by %.3g deg although the motion is purely radial" % (xs, sep(vec(*s1), vec(ra2, dec2))), xs, xs)
        # general case against the vector form: r(t) = d*u + t*(dr*u + d*(mu_a du/da + mu_d du/dd)), dr = v / 977792 pc/yr
        tm = rng.uniform(-5000, 5000)
        xs = "motion_in_space(%s, %s, %s, %s, %s, %s, %s)" % (A(ra2), A(dec2), fmt(dist), fmt(vel), A(ma), A(md), fmt(tm))
        s3 = call("motion", C.motion_in_space, xs, Angle(ra2), Angle(dec2), dist, vel, Angle(ma), Angle(md), tm)
        if s3 is not None:
            al, de = math.radians(ra2), math.radians(dec2)
            u = vec(ra2, dec2)
            du_da = (-math.cos(de) * math.sin(al), math.cos(de) * math.cos(al), 0.0)
            du_dd = (-math.sin(de) * math.cos(al), -math.sin(de) * math.sin(al), math.cos(de))
            dr = vel / 977792.0
            w = tuple(dist * u[k] + tm * (dr * u[k] + dist * (math.radians(ma) * du_da[k] + math.radians(md) * du_dd[k])) for k in range(3))
            nw = math.sqrt(sum(c * c for c in w))
            if nw > 1e-3 * dist:
                d = sep(vec(*s3), tuple(c / nw for c in w))
                if d > 1e-9:
                    report("motion-in-space-vector", "%s is %.3g deg from the direction of r0 + t*v" % (xs, d), xs, xs)
        xs = "motion_in_space(%s, %s, %s, 0.0, %s, %s, 1.0)" % (A(ra2), A(dec2), fmt(dist), A(ma), A(md))
        s2 = call("motion", C.motion_in_space, xs, Angle(ra2), Angle(dec2), dist, 0.0, Angle(ma), Angle(md), 1.0)
        if s2 is not None:
            d = sep(vec(*s2), vec(ra2 + ma, dec2 + md))
            if d > 1e-6:
                report("motion-in-space-linear", "%s is %.3g deg from start + mu * 1 yr" % (xs, d), xs, xs)
        # mean obliquity stays within 3 arcsec of the IAU cubic for |T| <= 20 centuries (guard against a wrong coefficient)
        T = (w0 - J2000) / 36525.0
        iau = 23 + 26 / 60.0 + 21.448 / 3600 + (-46.8150 * T - 0.00059 * T * T + 0.001813 * T ** 3) / 3600
        xe = "mean_obliquity(%s)" % E(w0)
        eo = call("obliquity", C.mean_obliquity, xe, f0)
        if eo is not None and abs(float(eo) - iau) * 3600 > 3.0:
            report("obliquity-vs-iau-cubic", "%s = %s deg, IAU cubic %.9f deg (more than 3 arcsec apart)" % (xe, fmt(eo), iau), xe, xe)

    stats = {"evaluations": stat["n"], "distinct_nontrivial": stat["nontriv"],
             "rule": "%d random configurations: direction uniform on the sphere / within 5 deg of a pole / +-89.999, +-89.9999999, +-90, 85+-1e-7 "
                     "(ecliptical latitudes too), epochs within 5 centuries of J2000 incl. the corners (20 centuries for identity and "
                     "angle preservation), proper motion up to 10 arcsec/yr per axis, Newcomb epochs 1800-2100, inclinations 0..180 incl. tiny, 90, retrograde; "
                     "non-trivial = configurations (each exercises ~45 calls)" % N,
             "samples": [{"input": "precession_equatorial(Epoch(J2000-5c), Epoch(J2000+5c), Angle(ra), Angle(89.9999999))",
                          "checked": "identity, there-and-back 1e-9, angle to a second star 1e-9, = ecliptical route 1e-4, proper motion = displaced start"}],
             "finding_counts": seen}
    return findings, stats
