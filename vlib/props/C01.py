"""C01 — calendar date <-> Julian Day is an exact bijection on civil days."""
import sys
from vlib import common as K, calref as R
from vlib.impl import load

ID = "C01"
MODULES = ["base", "Angle", "Epoch"]
REQUIRED = ["iint", "Epoch.__init__", "Epoch.set", "Epoch._compute_jde", "Epoch._check_values",
            "Epoch.get_date", "Epoch.get_month", "Epoch.is_leap", "Epoch.is_julian", "Epoch.mjd"]
THEOREMS = ["C01_construct", "C01_roundtrip", "C01_refused", "C01_consecutive", "C01_month_names", "C01_month_names_lastday", "C01_daycount_bijection", "C01_anchors"]
PROOF_TIMEOUT = {"quick": 1500, "thorough": 3000}
EXHAUSTIVE = True
MANIFEST = {
    "category": "proof",
    "text": "T1: the regenerated binary64 model of Epoch(y,m,d)/get_date is evaluated by the Coq kernel on every civil date -4712..6000 against an independent day count (proved bijective for all years by lia) and lifted to forall-theorems; bit-exact correspondence model vs implementation every run.",
    "technique": "kernel computation over the full finite domain (vm_compute reflection) + lia on the calendar spec + generated model + bit-exact differential correspondence",
    "design_ref": "8/C01",
}
EXPLANATION = ("Epoch(y,m,d) and get_date of the model regenerated from /repo are evaluated by the Coq kernel on "
               "EVERY civil date -4712..6000 (16 shards, vm_compute) against the independent day count Spec.CalSpec.jdn "
               "and lifted to forall-statements (Range.all_range_spec); jdn itself is proved bijective/consecutive for all years by lia.")
CLAUSES = {
    "construct = independent day count - 0.5 (every date -4712..6000)": "proved [B64, kernel computation over the full domain]",
    "read-back returns exactly the date": "proved [B64, full domain]",
    "day < 1 or > month length refused with ValueError (d in -1..0 and len+1..33)": "proved [B64, full domain]",
    "consecutive dates exactly 1.0 apart incl. 4->15 Oct 1582": "proved [B64 + spec lemma jdn_next, all years]",
    "month names (24 names x 4 spellings, every year, first and last day of the month)": "proved [B64, full domain]",
    "anchors -4712-01-01.5 = 0, MJD 0, J2000": "proved [B64]",
    "day count is a bijection (injective, onto all day numbers >= 0) stepping by 1 for ALL years (no upper bound)": "proved [spec, lia/induction] C01_daycount_bijection",
}

def proof_files(tier):
    return (["C01_defs.v"] + ["C01_shard_%02d.v" % k for k in range(16)]
            + ["C01_step.v", "C01_main.v", "C01.v"])

NAMES = ["Jan", "Feb", "Mar", "Apr", "May", "Jun", "Jul", "Aug", "Sep", "Oct", "Nov", "Dec"]
LONG = ["January", "February", "March", "April", "May", "June", "July", "August", "September",
        "October", "November", "December"]

def gen_dates(rng, n):
    out = []
    for _ in range(n):
        r = rng.random()
        if r < 0.25:
            y = rng.choice([-4712, -4711, -1, 0, 1, 4, 100, 1000, 1500, 1581, 1582, 1583, 1600, 1700, 1900,
                            2000, 2100, 2400, 5999, 6000])
        else:
            y = rng.randint(-4712, 6000)
        m = rng.randint(1, 12)
        r = rng.random()
        if r < 0.3: d = rng.choice([1, 28, 29, 30, 31])
        elif r < 0.4: d = rng.choice([0, 32, -1, R.mlen(y, m) + 1])
        else: d = rng.randint(1, 31)
        out.append((y, m, d))
    out += [(1582, 10, d) for d in range(1, 20)] + [(1582, 2, 28), (1582, 2, 29), (1500, 2, 29), (1900, 2, 29)]
    return out

def cases(rng, tier):
    n = 300 if tier == "quick" else 3000
    cs = []
    for (y, m, d) in gen_dates(rng, n):
        k = rng.random()
        ms = repr(m)
        if 1 <= m <= 12 and k < 0.15: ms = repr(rng.choice([NAMES[m-1], LONG[m-1].upper(), " %s " % LONG[m-1].lower()]))
        if k < 0.5: cs.append("Epoch(%d, %s, %d).jde()" % (y, ms, d))
        elif k < 0.8: cs.append("Epoch(%d, %s, %d).get_date()" % (y, ms, d))
        elif k < 0.9: cs.append("Epoch(%d, %s, %r).get_date()" % (y, ms, d + rng.random()))
        else: cs.append("Epoch(%d, %s, %d).mjd()" % (y, ms, d))
    cs += ["Epoch(-4712, 1, 1.5).jde()", "Epoch(1858, 'NOVEMBER', 17).mjd()", "Epoch(2000, 1, 1.5).jde()",
           "Epoch(2000, 13, 1)", "Epoch(2000, 'Foo', 1)", "Epoch(-4713, 1, 1)", "Epoch(2000, 0, 1)",
           "Epoch(2000, None, 1)", "Epoch(2000.5, 1, 1).jde()", "Epoch(2000, 2.9, 1).jde()"]
    return cs

def check_date(Epoch, y, m, d):
    """returns None or (key, what)"""
    if R.valid(y, m, d):
        try:
            e = Epoch(y, m, d)
        except Exception as ex:
            return ("construct-raises", "Epoch(%d,%d,%d) raises %s" % (y, m, d, type(ex).__name__))
        want = R.jdn(y, m, d) - 0.5
        if e.jde() != want:
            return ("jde-wrong", "Epoch(%d,%d,%d).jde() = %r, day count says %r" % (y, m, d, e.jde(), want))
        got = e.get_date()
        if tuple(got) != (y, m, float(d)) or not isinstance(got[0], int) or not isinstance(got[1], int):
            return ("readback-wrong", "Epoch(%d,%d,%d).get_date() = %r" % (y, m, d, got))
        y2, m2, d2 = R.next_date(y, m, d)
        if y2 <= 6000:
            try:
                diff = Epoch(y2, m2, d2).jde() - e.jde()
            except Exception as ex:
                return ("construct-raises", "Epoch(%d,%d,%d) raises %s" % (y2, m2, d2, type(ex).__name__))
            if diff != 1.0:
                return ("step-wrong", "Epoch(%d,%d,%d) - Epoch(%d,%d,%d) = %r" % (y2, m2, d2, y, m, d, diff))
    elif 1 <= m <= 12 and (d < 1 or d > R.mlen(y, m)) and y >= -4712:
        try:
            Epoch(y, m, d)
        except ValueError:
            return None
        except Exception as ex:
            return ("refuse-wrong-exception", "Epoch(%d,%d,%d) raises %s, not ValueError" % (y, m, d, type(ex).__name__))
        return ("not-refused", "Epoch(%d,%d,%d) is accepted (month has %d days)" % (y, m, d, R.mlen(y, m)))
    return None

def search(rng, tier, deep):
    mods = load(["Epoch"])
    Epoch = mods["Epoch"].Epoch
    findings, n, nontriv = [], 0, 0
    full = deep or tier == "thorough"
    years = range(-4712, 6001) if full else sorted(set(
        [rng.randint(-4712, 6000) for _ in range(250)] + [-4712, -1, 0, 1, 4, 1500, 1581, 1582, 1583, 1600, 1900, 2000, 6000]))
    samples = []
    for y in years:
        for m in range(1, 13):
            for d in range(0, 33):
                n += 1
                r = check_date(Epoch, y, m, d)
                if R.valid(y, m, d): nontriv += 1
                if r:
                    if r[0] == "step-wrong":      # same order of construction as the check (matters if state leaks between calls)
                        y2, m2, d2 = R.next_date(y, m, d)
                        rp = ("PYTHONPATH=/repo /venv/bin/python -c \"from pymeeus.Epoch import Epoch; a=Epoch(%d,%d,%d); "
                              "b=Epoch(%d,%d,%d); print(b.jde()-a.jde())\"" % (y, m, d, y2, m2, d2))
                    else:
                        rp = ("PYTHONPATH=/repo /venv/bin/python -c \"from pymeeus.Epoch import Epoch; e=Epoch(%d,%d,%d); "
                              "print(e.jde(), e.get_date())\"" % (y, m, d))
                    findings.append({"key": r[0], "what": r[1], "input": [y, m, d], "replay": rp})
                    if len(findings) > 50: break
            if len(findings) > 50: break
        if len(findings) > 50: break
    # month names: first and last day of the month (29 Feb in leap years of either calendar)
    name_years = [rng.randint(-4712, 6000) for _ in range(40)] + [-4712, -1000, 0, 4, 1500, 1582, 1600, 1900, 2000, 2024]
    for y in name_years:
        for k in range(12):
            for s in (NAMES[k], LONG[k], LONG[k].upper(), " " + NAMES[k].lower() + " "):
                for d in (1, R.mlen(y, k + 1)):
                    if not R.valid(y, k + 1, d): continue
                    n += 1
                    rp = ("PYTHONPATH=/repo /venv/bin/python -c \"from pymeeus.Epoch import Epoch; print(Epoch(%d,%r,%d).jde())\""
                          % (y, s, d))
                    try:
                        if Epoch(y, s, d).jde() != R.jdn(y, k + 1, d) - 0.5:
                            findings.append({"key": "month-name", "what": "Epoch(%d,%r,%d) differs from month number %d" % (y, s, d, k + 1),
                                             "input": [y, s, d], "replay": rp})
                    except Exception as ex:
                        findings.append({"key": "month-name", "what": "Epoch(%d,%r,%d) raises %r although the date exists" % (y, s, d, ex),
                                         "input": [y, s, d], "replay": rp})
    for expr, want in (("Epoch(-4712,1,1.5).jde()", 0.0), ("Epoch(1858,11,17).mjd()", 0.0), ("Epoch(2000,1,1.5).jde()", 2451545.0)):
        got = eval(expr, {"Epoch": Epoch})
        if got != want:
            findings.append({"key": "anchor", "what": "%s = %r, expected %r" % (expr, got, want), "input": expr, "replay": ""})
    stats = {"evaluations": n, "distinct_nontrivial": nontriv,
             "rule": "every (y, m, d) with d in 0..32 for %s years; non-trivial = valid civil dates (each checked for jde, read-back, step to next date)"
                     % ("ALL -4712..6000" if full else "%d sampled/boundary" % len(years)),
             "samples": [{"input": [1582, 10, 4], "checked": "jde == jdn-0.5, get_date == (1582,10,4.0), next date 1.0 later"}],
             "exhaustive_search": bool(full)}
    return findings, stats
