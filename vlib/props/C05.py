"""C05 — celestial coordinate conversions are inverse rotations; separation metric."""
import math
from vlib import common as K
from vlib.impl import load

ID = "C05"
MODULES = K.mods("base", "Angle", "Epoch", "Interpolation", "Coordinates")
REQUIRED = ["equatorial2ecliptical", "ecliptical2equatorial", "equatorial2horizontal", "horizontal2equatorial",
            "equatorial2galactic", "galactic2equatorial", "angular_separation", "relative_position_angle",
            "circle_diameter", "straight_line", "Angle.__init__", "Angle.set", "Angle.reduce_deg", "Angle.rad",
            "Angle.to_positive", "Angle.__add__", "Angle.__radd__", "Angle.__sub__", "Angle.__neg__", "Angle.__call__"]
THEOREMS = ["C05_closed_forms", "C05_ecl_rotation", "C05_ecl_inverse", "C05_hor_rotation", "C05_hor_inverse",
            "C05_gal_rotation", "C05_gal_inverse", "C05_inverse_directions", "C05_dot_preserved", "C05_separation",
            "C05_position_angle",
            "C05_circle_closed_form", "C05_circle_bounds", "C05_circle_geometry"]
PROOF_TIMEOUT = {"quick": 1500, "thorough": 3000}
EXHAUSTIVE = False
MANIFEST = {
    "category": "proof",
    "text": "T4 (ideal real arithmetic only; no binary64 theorem): the regenerated bodies of the six coordinate conversions, angular_separation and relative_position_angle are evaluated symbolically to exact closed forms (longitude atan2(y,x), latitude atan2(z, |cos lat_in| sqrt(x^2+y^2))), and for every INPUT latitude strictly between the poles (-90 < lat < 90; an input exactly at a pole is excluded because the code takes tan of it and the real-number tan has no domain check) the closed forms are proved to be rotations of the unit vector (Rx(-/+eps); Ry by the colatitude with Meeus' azimuth convention; the fixed galactic rotation Rz(303)Ry(27.4-90)Rz(-192.25) and its inverse Rz(12.25)Ry(27.4-90)Rz(-123)); an OUTPUT exactly at a pole is covered. Each pair is mutually inverse as directions for every input longitude and as angles for canonical longitudes, provided the intermediate latitude is not a pole (it is the input of the second call); dot products preserved (inputs off the poles); longitudes in [0,360) / azimuths in (-180,180], latitudes in [-90,90]. Separation: exact expression 2 atan2(sqrt h, sqrt hc), hc = 1 - h, cos(theta) = dot product, 0..180, symmetric. Position angle: exact expression (shifted/rounded delta-alpha in [-180,180] for canonical right ascensions, two cancellation-free x forms, both = u1.north2), equals Meeus' quotient form for cos d1 > 0, negates when the two right ascensions are exchanged (not the bodies). circle_diameter: branch selection, closed form and a <= d <= 2a/sqrt(3) for any three separations in 0..180 (planar geometry). Binary64 behaviour of all clauses (1e-9 degree on the sphere, exact poles +-90 and +-(90-1e-9) as inputs and outputs, 0/360 seam, 1e-7..179.999 degree separations) and straight_line are searched on the implementation against unit-vector / 60-digit references; bit-exact correspondence model vs implementation every run.",
    "technique": "symbolic evaluation of the generated model in the real-number instance (pyrun with characterisation lemmas for the Angle constructor / reduce_deg / to_positive / Angle subtraction / x**2, call-by-value variant for nested arithmetic) + atan2 and rotation algebra on unit vectors (lib/Sphere.v) + bit-exact differential correspondence + property oracle on the sphere",
    "design_ref": "8/C05",
}
EXPLANATION = ("The model of the conversion routines regenerated from /repo is evaluated symbolically over the reals; the "
               "results are proved to be the coordinates (atan2 y x, atan2 z (cos-lat)) of a rotation of the input direction "
               "(uvec (atan2 y x) (asin z) = (x,y,z) and atan2 z (sqrt(x^2+y^2)) = asin z for unit vectors, atan2 scale invariance "
               "for the division by cos(delta) hidden in tan: needs -90 < input latitude < 90), hence inverse pairs, isometries, "
               "canonical ranges. The separation (2 atan2(sqrt h, sqrt(1-h))) is proved equal to the cosine rule, the position "
               "angle to atan2(u1.east2, u1.north2). Exact input poles and all rounding questions are left to the search.")
CLAUSES = {
    "equatorial<->ecliptical mutually inverse, every obliquity, including the poles":
        "proved [ideal, C05_ecl_rotation + C05_ecl_inverse (angles, start longitude in [0,360)) + C05_inverse_directions (directions, any longitude)] for -90 < input latitude < 90 and intermediate latitude not a pole: an INPUT exactly at a pole is excluded (tan), an OUTPUT at a pole is covered; exact poles as inputs (+-90, +-(90-1e-9)) and the 1e-9 deg binary64 accuracy: unproved (searched)",
    "equatorial<->horizontal mutually inverse, every observer latitude, including the poles":
        "proved [ideal, C05_hor_rotation + C05_hor_inverse (hour angle / azimuth in (-180,180]) + C05_inverse_directions] with the same exclusion of exact input poles of the direction (observer latitude unrestricted); poles and binary64 accuracy: unproved (searched)",
    "equatorial<->galactic mutually inverse, including the poles":
        "proved [ideal, C05_gal_rotation + C05_gal_inverse + C05_inverse_directions] with the same exclusion of exact input poles; poles and binary64 accuracy: unproved (searched)",
    "each conversion is the documented rotation of the direction (every formula/constant/sign pinned)":
        "proved [ideal, C05_closed_forms (all reals; meaningless where cos(input latitude) = 0 because the ideal tan is junk there), C05_*_rotation (-90 < input latitude < 90)]",
    "longitudes in their documented range, latitudes in [-90,90]":
        "per function: equatorial2ecliptical (longitude), ecliptical2equatorial (right ascension), equatorial2galactic (longitude), galactic2equatorial (right ascension): [0,360), the code applies to_positive - proved [ideal, C05_*_rotation] and searched strictly (0 <= x < 360); equatorial2horizontal (azimuth, westward from the South) and horizontal2equatorial (hour angle): the docstrings give no numeric range and the code returns Angle(atan2(..)) without to_positive - proved (-180,180] [ideal, C05_hor_rotation]; the search accepts [-180,180] (binary64 atan2 returns -pi for (-0.0, negative), i.e. -180.0 = the same direction); latitudes [-90,90] proved and searched for all six; domain of the proofs as above",
    "the angle between any two directions is unchanged": "proved exactly [ideal, C05_dot_preserved, both inputs off the exact poles]; binary64 1e-9 deg searched incl. poles",
    "angular separation = dot-product value (cos theta = sin d1 sin d2 + cos d1 cos d2 cos da), 0..180, symmetric":
        "proved [ideal, C05_separation: exact expression of the code, hc = 1 - h for exactly that expression, cosine rule, range, symmetry; all angles in (-360,360)]; binary64 1e-9 deg for 1e-7..179.999 deg: unproved (searched against a 60-digit reference)",
    "relative position angle = cross/dot-product value; antisymmetric":
        "proved [ideal, C05_position_angle: exact expression of the code; delta-alpha in [-180,180] with zero rounding term for right ascensions in [0,360) and congruent to a1-a2 mod 360 always; both x forms = u1.north2; equals Meeus' quotient form for cos d1 > 0; negates when the two RIGHT ASCENSIONS are exchanged (declinations kept, cos d1 sin da <> 0): that is what 'antisymmetric' is taken to mean; the exchange of the two BODIES is not a negation on the sphere and no theorem claims it]; binary64 1e-9 deg: unproved, searched for every direction incl. exact poles against a 60-digit reference (at an exact pole 'north' is the limit along the meridian of the stated right ascension: body 1 at the north/south pole gives 0/180 deg, body 2 at a pole gives the direction of body 1's meridian - the value of the formula, accepted because the reference evaluates the same limit exactly); searched additionally: RA exchange negates, and body exchange: P12 and P21 are the two ends of one great-circle arc (t1 = -(t2 cos s - u2 sin s), convergence of the meridians included) to 1e-9 deg ( known finding position-angle-value-near-pole: both |delta| > 89.999 deg and deviation <= 2e-5 deg)",
    "circle_diameter between the largest separation a and 2a/sqrt(3)": "proved [ideal, C05_circle_closed_form + C05_circle_bounds + C05_circle_geometry: for any three separations in 0..180 (abstracted; their values are C05_separation) the code selects the largest as a, applies a or 2abc/sqrt((a+b+c)(a+b-c)(b+c-a)(a+c-b)) according to a >= sqrt(b^2+c^2), and a <= result <= 2a/sqrt(3)]; binary64 searched",
    "straight_line (angle between the great circles / distance from the great circle)": "unproved (searched against a cross-product reference); correspondence bit-exact",
    "binary64 rounding of all the above": "unproved (searched with the property's tolerances; correspondence is bit-exact with traced libm); there is no binary64 theorem for this property",
}


def proof_files(tier):
    return ["C05_angle.v", "C05_run.v", "C05_ecl.v", "C05_hor.v", "C05_gal.v", "C05_sep.v", "C05_circle.v", "C05.v"]


# ----------------------------------------------------------------------------- reference geometry
TOL = 1e-9          # degrees, on the sphere
D2R = math.pi / 180.0


def uv(lon, lat):
    lo, la = lon * D2R, lat * D2R
    c = math.cos(la)
    return (c * math.cos(lo), c * math.sin(lo), math.sin(la))


def dotp(u, v): return u[0] * v[0] + u[1] * v[1] + u[2] * v[2]


def crossp(u, v): return (u[1] * v[2] - u[2] * v[1], u[2] * v[0] - u[0] * v[2], u[0] * v[1] - u[1] * v[0])


def norm(u): return math.sqrt(dotp(u, u))


def angdist(u, v):
    """angle between two vectors in degrees, accurate for tiny and near-180 angles"""
    return math.degrees(math.atan2(norm(crossp(u, v)), dotp(u, v)))


def rx(a, v):
    c, s = math.cos(a * D2R), math.sin(a * D2R)
    return (v[0], c * v[1] - s * v[2], s * v[1] + c * v[2])


def ry(a, v):
    c, s = math.cos(a * D2R), math.sin(a * D2R)
    return (c * v[0] + s * v[2], v[1], -s * v[0] + c * v[2])


def rz(a, v):
    c, s = math.cos(a * D2R), math.sin(a * D2R)
    return (c * v[0] - s * v[1], s * v[0] + c * v[1], v[2])


def ref_gal(v): return rz(303.0, ry(27.4 - 90.0, rz(-192.25, v)))
def ref_gal_inv(v): return rz(12.25, ry(27.4 - 90.0, rz(-123.0, v)))


def ref_pa(a1, d1, a2, d2):
    """position angle of body 1 relative to body 2 (from North through East), well conditioned
    for tiny separations: atan2(u1.east2, u1.north2)"""
    da = (a1 - a2) * D2R
    dd = (d1 - d2) * D2R
    y = math.cos(d1 * D2R) * math.sin(da)
    x = math.sin(dd) + 2.0 * math.sin(d2 * D2R) * math.cos(d1 * D2R) * math.sin(da / 2.0) ** 2
    return math.degrees(math.atan2(y, x))


# --- 50-digit reference (decimal) for the separation and the position angle: the float inputs are
# taken exactly, so the reference is right to ~1e-40 even for separations of 1e-7 degree
from decimal import Decimal as _D, getcontext as _ctx
_ctx().prec = 60
_PI = _D("3.14159265358979323846264338327950288419716939937510582097494459230781640628620899")
_D2R = _PI / 180


def d_sincos(x):
    """(sin x, cos x) of a Decimal x (radians)"""
    k = (x / (2 * _PI)).to_integral_value()
    r = x - 2 * _PI * k
    r8 = r / 8                       # |r8| <= pi/8, then three double-angle steps
    s, c, t, n, x2 = _D(0), _D(0), r8, 1, r8 * r8
    term_s, term_c = r8, _D(1)
    s, c = term_s, term_c
    for i in range(1, 40):
        term_c = -term_c * x2 / ((2 * i - 1) * (2 * i))
        term_s = -term_s * x2 / ((2 * i) * (2 * i + 1))
        c += term_c; s += term_s
    for _ in range(3):
        s, c = 2 * s * c, c * c - s * s
    return s, c


def d_atan2(y, x):
    """atan2 of Decimals, by Newton refinement of the double-precision value"""
    if y == 0 and x == 0: return _D(0)
    t = _D(math.atan2(float(y), float(x)))
    r = (x * x + y * y).sqrt()
    for _ in range(3):
        s, c = d_sincos(t)
        t = t - (s * x - c * y) / (c * x + s * y)
    return t


def d_uv(lon, lat):
    sl, cl = d_sincos(_D(lon) * _D2R); sb, cb = d_sincos(_D(lat) * _D2R)
    return (cb * cl, cb * sl, sb)


def ref_sep_hp(a1, d1, a2, d2):
    u, v = d_uv(a1, d1), d_uv(a2, d2)
    cr = (u[1] * v[2] - u[2] * v[1], u[2] * v[0] - u[0] * v[2], u[0] * v[1] - u[1] * v[0])
    n = (cr[0] * cr[0] + cr[1] * cr[1] + cr[2] * cr[2]).sqrt()
    dt = u[0] * v[0] + u[1] * v[1] + u[2] * v[2]
    return float(d_atan2(n, dt) / _D2R)


def ref_pa_hp(a1, d1, a2, d2):
    """position angle of body 1 seen from body 2: atan2(u1.east2, u1.north2) in 60 digits"""
    sda, cda = d_sincos((_D(a1) - _D(a2)) * _D2R)
    s1, c1 = d_sincos(_D(d1) * _D2R); s2, c2 = d_sincos(_D(d2) * _D2R)
    return float(d_atan2(c1 * sda, c2 * s1 - s2 * c1 * cda) / _D2R)


def angle_diff(a, b):
    """difference of two angles in degrees, folded to [-180, 180]"""
    d = math.fmod(a - b, 360.0)
    if d > 180.0: d -= 360.0
    if d < -180.0: d += 360.0
    return d


# ----------------------------------------------------------------------------- generators
SPECIAL_LAT = [90.0, -90.0, 90 - 1e-9, -(90 - 1e-9), 0.0, 89.999999, -89.999999, 45.0, -45.0, 1e-9, -1e-9,
               66.56, 23.44, 62.6, -62.6, 27.4, -27.4]
SPECIAL_LON = [0.0, 360 - 1e-9, 1e-9, 180.0, 90.0, 270.0, 359.999999999999, 192.25, 12.25, 123.0, 303.0, 282.25, 33.0]


def r_lon(rng):
    return rng.choice(SPECIAL_LON) if rng.random() < 0.2 else rng.uniform(0, 360)


def r_lat(rng):
    r = rng.random()
    if r < 0.25: return rng.choice(SPECIAL_LAT)
    if r < 0.35: return rng.choice([-1, 1]) * (90 - 10 ** rng.uniform(-9, 0))
    return math.degrees(math.asin(rng.uniform(-1, 1)))


def r_dir(rng): return r_lon(rng), r_lat(rng)


def r_eps(rng):
    return rng.choice([0.0, 30.0, 23.4392911, 23.44, 1e-9]) if rng.random() < 0.25 else rng.uniform(0, 30)


def r_phi(rng):
    return rng.choice([90.0, -90.0, 0.0, 90 - 1e-9, -(90 - 1e-9), 51.4778, -33.9]) if rng.random() < 0.3 else rng.uniform(-90, 90)


def r_pair(rng):
    """two directions: generic / nearly coincident (1e-7 .. 1e-2 deg) / nearly antipodal / antipodal"""
    a1, d1 = r_dir(rng)
    r = rng.random()
    if r < 0.4:
        a2, d2 = r_dir(rng)
    elif r < 0.75:
        s = 10 ** rng.uniform(-7, -1)
        th = rng.uniform(0, 2 * math.pi)
        d1 = max(-89.0, min(89.0, d1))
        d2 = d1 + s * math.cos(th)
        a2 = a1 + s * math.sin(th) / max(math.cos(d1 * D2R), 1e-3)
    else:
        s = 10 ** rng.uniform(-3, 0) if r < 0.95 else 0.0
        th = rng.uniform(0, 2 * math.pi)
        d1 = max(-89.0, min(89.0, d1))
        d2 = -d1 + s * math.cos(th)
        a2 = a1 + 180.0 + s * math.sin(th) / max(math.cos(d1 * D2R), 1e-3)
    a2 = math.fmod(a2, 360.0)
    if a2 < 0: a2 += 360.0
    d2 = max(-90.0, min(90.0, d2))
    return a1, d1, a2, d2


def fmt(x): return repr(float(x))


def A(x): return "Angle(%s)" % fmt(x)


def cases(rng, tier):
    n = 25 if tier == "quick" else 250
    cs = []
    for _ in range(n):
        a, d = r_dir(rng); e = r_eps(rng); p = r_phi(rng)
        cs.append("equatorial2ecliptical(%s, %s, %s)" % (A(a), A(d), A(e)))
        cs.append("ecliptical2equatorial(%s, %s, %s)" % (A(a), A(d), A(e)))
        cs.append("equatorial2horizontal(%s, %s, %s)" % (A(a), A(d), A(p)))
        cs.append("horizontal2equatorial(%s, %s, %s)" % (A(a), A(d), A(p)))
        cs.append("equatorial2galactic(%s, %s)" % (A(a), A(d)))
        cs.append("galactic2equatorial(%s, %s)" % (A(a), A(d)))
        a1, d1, a2, d2 = r_pair(rng)
        cs.append("angular_separation(%s, %s, %s, %s)" % (A(a1), A(d1), A(a2), A(d2)))
        cs.append("relative_position_angle(%s, %s, %s, %s)" % (A(a1), A(d1), A(a2), A(d2)))
        t = r_triple(rng)
        cs.append("circle_diameter(%s)" % ", ".join(A(x) for x in t))
        cs.append("straight_line(%s)" % ", ".join(A(x) for x in t))
    cs += ["equatorial2ecliptical(Angle(7, 45, 18.946, ra=True), Angle(28, 1, 34.26), Angle(23.4392911))",
           "ecliptical2equatorial(Angle(113.21563), Angle(6.68417), Angle(23.4392911))",
           "equatorial2horizontal(Angle(64.352133), Angle(-6, -43, -11.61), Angle(38, 55, 17))",
           "horizontal2equatorial(Angle(68.0337), Angle(15.1249), Angle(38, 55, 17))",
           "equatorial2galactic(Angle(17, 48, 59.74, ra=True), Angle(-14, -43, -8.2))",
           "galactic2equatorial(Angle(12.9593), Angle(6.0463))",
           "angular_separation(Angle(14, 15, 39.7, ra=True), Angle(19, 10, 57.0), Angle(13, 25, 11.6, ra=True), Angle(-11, 9, 41.0))",
           "relative_position_angle(Angle(14, 15, 39.7, ra=True), Angle(19, 10, 57.0), Angle(13, 25, 11.6, ra=True), Angle(-11, 9, 41.0))",
           "circle_diameter(Angle(12, 41, 8.63, ra=True), Angle(-5, -37, -54.2), Angle(12, 52, 5.21, ra=True), Angle(-4, -22, -26.2), Angle(12, 39, 28.11, ra=True), Angle(-1, -50, -3.7))",
           "circle_diameter(Angle(9, 5, 41.44, ra=True), Angle(18, 30, 30.0), Angle(9, 9, 29.0, ra=True), Angle(17, 43, 56.7), Angle(8, 59, 47.14, ra=True), Angle(17, 49, 36.8))",
           "straight_line(Angle(7, 55, 55.36, ra=True), Angle(21, 41, 3.0), Angle(7, 34, 16.4, ra=True), Angle(31, 53, 51.2), Angle(7, 45, 0.1, ra=True), Angle(28, 2, 12.5))",
           "equatorial2ecliptical(Angle(10.0), Angle(90.0), Angle(23.44))", "equatorial2horizontal(Angle(0.0), Angle(90.0), Angle(90.0))",
           "equatorial2galactic(Angle(192.25), Angle(27.4))", "galactic2equatorial(Angle(0.0), Angle(90.0))",
           "angular_separation(Angle(10.0), Angle(20.0), Angle(10.0), Angle(20.0))",
           "angular_separation(Angle(10.0), Angle(20.0), Angle(190.0), Angle(-20.0))",
           "circle_diameter(Angle(10.0), Angle(20.0), Angle(10.0), Angle(20.0), Angle(10.0), Angle(20.0))",
           "equatorial2ecliptical(10.0, Angle(1.0), Angle(23.44))", "ecliptical2equatorial(Angle(1.0), 1.0, Angle(23.44))",
           "equatorial2horizontal(Angle(1.0), Angle(1.0), 40.0)", "horizontal2equatorial('a', Angle(1.0), Angle(1.0))",
           "equatorial2galactic(Angle(1.0), 2)", "galactic2equatorial(1, Angle(2.0))",
           "angular_separation(Angle(1.0), Angle(1.0), Angle(2.0), 2.0)", "relative_position_angle(1.0, Angle(1.0), Angle(2.0), Angle(2.0))",
           "circle_diameter(Angle(1.0), Angle(1.0), Angle(2.0), Angle(2.0), Angle(3.0), 3.0)",
           "straight_line(Angle(1.0), Angle(1.0), Angle(2.0), Angle(2.0), 3.0, Angle(3.0))"]
    return cs


def r_triple(rng):
    """three nearby bodies (within a few degrees), away from the poles"""
    a0, d0 = rng.uniform(0, 360), rng.uniform(-70, 70)
    s = 10 ** rng.uniform(-3, 0.7)
    out = []
    for _ in range(3):
        out += [math.fmod(a0 + rng.uniform(-s, s) / math.cos(d0 * D2R) + 360.0, 360.0), d0 + rng.uniform(-s, s)]
    return out


def d_basis(lon, lat):
    """(u, east, north) at a direction, 60 digits; at a pole the limit along the stated meridian"""
    sl, cl = d_sincos(_D(lon) * _D2R); sb, cb = d_sincos(_D(lat) * _D2R)
    return (cb * cl, cb * sl, sb), (-sl, cl, _D(0)), (-sb * cl, -sb * sl, cb)


def exchange_defect(a1, d1, a2, d2, p12, p21):
    """angle (degrees) between the departure direction at body 1 given by p21 and minus the arrival
    direction of the great-circle arc that leaves body 2 in the direction p12"""
    u1, e1, n1 = d_basis(a1, d1); u2, e2, n2 = d_basis(a2, d2)
    s12, c12 = d_sincos(_D(p12) * _D2R); s21, c21 = d_sincos(_D(p21) * _D2R)
    t2 = tuple(s12 * e2[i] + c12 * n2[i] for i in range(3))
    t1 = tuple(s21 * e1[i] + c21 * n1[i] for i in range(3))
    cr = (u2[1] * u1[2] - u2[2] * u1[1], u2[2] * u1[0] - u2[0] * u1[2], u2[0] * u1[1] - u2[1] * u1[0])
    ss = (cr[0] * cr[0] + cr[1] * cr[1] + cr[2] * cr[2]).sqrt()
    cs = u1[0] * u2[0] + u1[1] * u2[1] + u1[2] * u2[2]
    w = tuple(-(t2[i] * cs - u2[i] * ss) for i in range(3))
    cx = (t1[1] * w[2] - t1[2] * w[1], t1[2] * w[0] - t1[0] * w[2], t1[0] * w[1] - t1[1] * w[0])
    n = (cx[0] * cx[0] + cx[1] * cx[1] + cx[2] * cx[2]).sqrt()
    dt = t1[0] * w[0] + t1[1] * w[1] + t1[2] * w[2]
    return float(d_atan2(n, dt) / _D2R)


def pa_regime(d1, d2, dev):
    """known finding C05/position-angle-value-near-pole: BOTH bodies at |declination| > 89.999 deg
    (cos(delta) from radians next to pi/2) and deviation <= 2e-5 deg; everything else (one body
    in the cap, larger deviations) is reported under the generic key at the literal 1e-9 deg"""
    if min(abs(d1), abs(d2)) > 89.999 and dev <= 2e-5: return "-near-pole"
    return ""


# ----------------------------------------------------------------------------- the oracle
class Oracle:
    def __init__(self, mods):
        self.C = mods["Coordinates"]; self.Angle = mods["Angle"].Angle
        self.findings = []; self.keys = {}; self.n = 0; self.nontrivial = 0

    def add(self, key, what, inp, call):
        if self.keys.get(key, 0) >= 3: return
        self.keys[key] = self.keys.get(key, 0) + 1
        self.findings.append({"key": key, "what": what, "input": inp,
                              "replay": "PYTHONPATH=/repo /venv/bin/python -c \"from pymeeus.Coordinates import *; from pymeeus.Angle import Angle; r=%s; print(r if not isinstance(r, tuple) else tuple(float(x) for x in r))\"" % call})

    def call(self, name, args):
        """returns tuple of floats / float, or None after recording an exception finding"""
        self.n += 1
        expr = "%s(%s)" % (name, ", ".join(A(x) for x in args))
        try:
            r = getattr(self.C, name)(*[self.Angle(x) for x in args])
        except ValueError as ex:
            # math.asin / math.acos of an argument that rounding pushed beyond +-1
            self.add(name + "-domain-error", "%s raises %s: %s" % (expr, type(ex).__name__, ex), list(args), expr)
            return None
        except Exception as ex:
            self.add(name + "-raises", "%s raises %s: %s" % (expr, type(ex).__name__, ex), list(args), expr)
            return None
        if isinstance(r, tuple): return tuple(float(x) for x in r)
        return float(r)

    # --- one conversion pair: forward name, backward name, extra args, reference rotations, longitude range
    def pair(self, fwd, bwd, lon, lat, extra, ref_fwd, lon_range):
        u = uv(lon, lat)
        r = self.call(fwd, (lon, lat) + extra)
        if r is None: return None
        lo2, la2 = r
        self.nontrivial += 1
        expr = "%s(%s)" % (fwd, ", ".join(A(x) for x in (lon, lat) + extra))
        inp = [lon, lat] + list(extra)
        lo_ok = (0.0 <= lo2 < 360.0) if lon_range == "pos" else (-180.0 <= lo2 <= 180.0)
        if not lo_ok:
            self.add(fwd + "-longitude-range", "%s -> longitude %r outside %s" % (expr, lo2, "[0,360)" if lon_range == "pos" else "[-180,180]"), inp, expr)
        if not (-90.0 <= la2 <= 90.0):
            self.add(fwd + "-latitude-range", "%s -> latitude %r outside [-90,90]" % (expr, la2), inp, expr)
        v = uv(lo2, la2)
        e = angdist(v, ref_fwd(u))
        if not e <= TOL:
            self.add(fwd + "-rotation", "%s = (%r, %r) is %.3g deg away from the rotated direction" % (expr, lo2, la2, e), inp, expr)
        b = self.call(bwd, (lo2, la2) + extra)
        if b is not None:
            e = angdist(uv(b[0], b[1]), u)
            if not e <= TOL:
                self.add(fwd + "-" + bwd + "-roundtrip",
                         "%s(%s(%s)) = (%r, %r) is %.3g deg away from the start" % (bwd, fwd, ", ".join(fmt(x) for x in inp), b[0], b[1], e),
                         inp, "%s(*%s%s)" % (bwd, expr, "".join(", " + A(x) for x in extra)) if False else
                         "%s(*(%s + (%s)))" % (bwd, expr, "".join(A(x) + "," for x in extra)))
        return v

    def pair2(self, fwd, p1, p2, extra, lon_range):
        """angle between two directions is preserved"""
        r1 = self.call(fwd, p1 + extra); r2 = self.call(fwd, p2 + extra)
        if r1 is None or r2 is None: return
        s0 = angdist(uv(*p1), uv(*p2)); s1 = angdist(uv(*r1), uv(*r2))
        if not abs(s0 - s1) <= TOL:
            self.add(fwd + "-angle-preserved", "%s changes the angle between %r and %r from %r to %r deg" % (fwd, p1, p2, s0, s1),
                     list(p1 + p2 + extra), "(%s(%s), %s(%s))" % (fwd, ", ".join(A(x) for x in p1 + extra), fwd, ", ".join(A(x) for x in p2 + extra)))

    def separation(self, a1, d1, a2, d2):
        ref = angdist(uv(a1, d1), uv(a2, d2))
        if not (1e-7 <= ref <= 179.999): return
        ref = ref_sep_hp(a1, d1, a2, d2)
        args = (a1, d1, a2, d2)
        s = self.call("angular_separation", args)
        if s is None: return
        self.nontrivial += 1
        expr = "angular_separation(%s)" % ", ".join(A(x) for x in args)
        if not abs(s - ref) <= TOL:
            self.add("separation-value", "%s = %r, dot/cross-product value %r (diff %.3g deg)" % (expr, s, ref, s - ref), list(args), expr)
        if not (0.0 <= s <= 180.0):
            self.add("separation-range", "%s = %r outside [0,180]" % (expr, s), list(args), expr)
        s2 = self.call("angular_separation", (a2, d2, a1, d1))
        if s2 is not None and not abs(s - s2) <= TOL:
            self.add("separation-symmetry", "%s = %r but swapped = %r" % (expr, s, s2), list(args), expr)
        # position angle: every direction, poles included.  At an exact pole "north" is a
        # convention: the reference (and the code) use the formula's limit along the meridian of
        # the stated right ascension: body 1 at the north (south) pole -> 0 (180) degrees; body 2
        # at a pole -> atan2(sin da, -+cos da), i.e. the direction of body 1's meridian.
        p = self.call("relative_position_angle", args)
        if p is None: return
        pexpr = "relative_position_angle(%s)" % ", ".join(A(x) for x in args)
        pref = ref_pa_hp(a1, d1, a2, d2)
        e = abs(angle_diff(p, pref))
        if not e <= TOL:
            self.add("position-angle-value" + pa_regime(d1, d2, e), "%s = %r, cross/dot-product value %r (diff %.3g deg, separation %.3g deg)" % (pexpr, p, pref, e, ref), list(args), pexpr)
        # 'antisymmetric' (a): exchanging the two right ascensions (declinations kept) negates it
        q = self.call("relative_position_angle", (a2, d1, a1, d2))
        if q is not None and abs(math.sin((a1 - a2) * D2R)) > 1e-12:
            e = abs(angle_diff(q, -p))
            if not e <= TOL:
                self.add("position-angle-antisymmetry" + pa_regime(d1, d2, e), "%s = %r but with the right ascensions exchanged %r (sum %.3g deg)" % (pexpr, p, q, e), list(args), pexpr)
        # (b): exchanging the two BODIES.  P12 and P21 are not negatives of each other on the sphere;
        # what holds is that they are the two ends of one great-circle arc: the departure direction at
        # body 1 towards body 2 is minus the arrival direction of the arc from body 2 (convergence of
        # the meridians included): t1 = -(t2 cos s - u2 sin s), t_i = sin P e_i + cos P n_i.
        p21 = self.call("relative_position_angle", (a2, d2, a1, d1))
        if p21 is not None:
            e = exchange_defect(a1, d1, a2, d2, p, p21)
            if not e <= TOL:
                self.add("position-angle-value-near-pole" if pa_regime(d1, d2, e) else "position-angle-body-exchange",
                         "%s = %r and with the bodies exchanged %r are not the two ends of one great-circle arc (%.3g deg)" % (pexpr, p, p21, e),
                         list(args), "(%s, relative_position_angle(%s))" % (pexpr, ", ".join(A(x) for x in (a2, d2, a1, d1))))

    def triple(self, t):
        args = tuple(t)
        d = self.call("circle_diameter", args)
        if d is None: return
        self.nontrivial += 1
        pts = [uv(t[0], t[1]), uv(t[2], t[3]), uv(t[4], t[5])]
        seps = [angdist(pts[0], pts[1]), angdist(pts[0], pts[2]), angdist(pts[1], pts[2])]
        a = max(seps)
        expr = "circle_diameter(%s)" % ", ".join(A(x) for x in args)
        slack = 1e-9 + 1e-9 * a
        if not (a - slack <= d <= 2.0 * a / math.sqrt(3.0) + slack):
            self.add("circle-diameter-bounds", "%s = %r not within [a, 2a/sqrt(3)] = [%r, %r] (a = largest separation)" % (expr, d, a, 2 * a / math.sqrt(3.0)), list(args), expr)
        # straight_line against cross products (bodies sorted by right ascension as documented)
        if len(set([t[0], t[2], t[4]])) < 3 or min(seps) < 1e-3: return
        r = self.call("straight_line", args)
        if r is None: return
        order = sorted(range(3), key=lambda i: t[2 * i])
        q = [pts[i] for i in order]
        n12, n23, n13 = crossp(q[0], q[1]), crossp(q[1], q[2]), crossp(q[0], q[2])
        psi = angdist(n12, n23)
        om = math.degrees(math.asin(max(-1.0, min(1.0, dotp(q[1], n13) / norm(n13)))))
        sexpr = "straight_line(%s)" % ", ".join(A(x) for x in args)
        tol_psi = 1e-6 + 2e-14 / max(math.sin(min(seps) * D2R), 1e-12) ** 2 / max(math.sin(psi * D2R), 1e-3)
        if not (abs(r[0] - psi) <= tol_psi and abs(r[1] - om) <= 1e-8 + 1e-13 / math.sin(min(seps) * D2R)):
            self.add("straight-line-value", "%s = (%r, %r), cross-product value (%r, %r)" % (sexpr, r[0], r[1], psi, om), list(args), sexpr)


# nearly coincident pairs on both sides of the 0/360 seam (neither right ascension is 0.0 exactly)
SEAM_PAIRS = [(1e-09, 23.44, 359.9999998212554, 23.439997306158443),
              (359.9999998212554, 23.439997306158443, 1e-09, 23.44),
              (1e-09, -65.35047606189956, 359.99999967519966, -65.3504754532039),
              (3.5e-07, 10.0, 359.9999996, 10.0000004), (359.9999996, 10.0000004, 3.5e-07, 10.0),
              (0.0, 28.217910618854102, 359.9999948006034, 28.217907282511174),
              (359.999999999, 21.262033144139757, 7.346143320319243e-07, 21.262034681122703)]


# both bodies within a micro-degree of the same pole, and one body exactly at a pole
POLE_PAIRS = [(43.70914823398642, -89.99999984875745, 166.26056288892119, -89.9999999927867),
              (186.6658622428218, 89.99999991996376, 296.57116130361595, 89.99999994870872),
              (239.87600809658426, 90.0, 150.94423176857595, 89.99982181733273),
              (215.39554990664337, -89.999999, 220.8436952332107, -90.0),
              (10.0, 90.0, 200.0, 35.0), (200.0, 35.0, 10.0, 90.0), (77.0, -90.0, 300.0, -89.0)]


def search(rng, tier, deep):
    mods = load(["Angle", "Coordinates"])
    O = Oracle(mods)
    n = 400 if tier == "quick" and not deep else 6000
    fixed = [(a, d) for a in (0.0, 90.0, 360 - 1e-9, 192.25, 282.25) for d in (90.0, -90.0, 90 - 1e-9, -(90 - 1e-9), 0.0)]
    for i in range(n):
        lon, lat = fixed[i] if i < len(fixed) else r_dir(rng)
        eps, phi = r_eps(rng), r_phi(rng)
        O.pair("equatorial2ecliptical", "ecliptical2equatorial", lon, lat, (eps,), lambda u: rx(-eps, u), "pos")
        O.pair("ecliptical2equatorial", "equatorial2ecliptical", lon, lat, (eps,), lambda u: rx(eps, u), "pos")
        O.pair("equatorial2horizontal", "horizontal2equatorial", lon, lat, (phi,), lambda u: ry(phi - 90.0, u), "sym")
        O.pair("horizontal2equatorial", "equatorial2horizontal", lon, lat, (phi,), lambda u: ry(90.0 - phi, u), "sym")
        O.pair("equatorial2galactic", "galactic2equatorial", lon, lat, (), ref_gal, "pos")
        O.pair("galactic2equatorial", "equatorial2galactic", lon, lat, (), ref_gal_inv, "pos")
        a1, d1, a2, d2 = r_pair(rng)
        O.separation(a1, d1, a2, d2)
        if i < len(SEAM_PAIRS):
            O.separation(*SEAM_PAIRS[i])
        if i < len(POLE_PAIRS):
            O.separation(*POLE_PAIRS[i])
        if i % 4 == 0:
            O.pair2("equatorial2ecliptical", (a1, d1), (a2, d2), (eps,), "pos")
            O.pair2("ecliptical2equatorial", (a1, d1), (a2, d2), (eps,), "pos")
            O.pair2("equatorial2horizontal", (a1, d1), (a2, d2), (phi,), "sym")
            O.pair2("horizontal2equatorial", (a1, d1), (a2, d2), (phi,), "sym")
            O.pair2("equatorial2galactic", (a1, d1), (a2, d2), (), "pos")
            O.pair2("galactic2equatorial", (a1, d1), (a2, d2), (), "pos")
        O.triple(r_triple(rng))
    # Meeus' worked examples as anchors of the conventions (rounded as printed)
    stats = {"evaluations": O.n, "distinct_nontrivial": O.nontrivial,
             "rule": "%d rounds: a direction (uniform on the sphere / poles +-90 and +-(90-1e-9) / equator / 0-360 seam / special longitudes), obliquity 0..30, "
                     "observer latitude -90..90: every conversion compared on the sphere (1e-9 deg) with the reference rotation of the unit vector, there-and-back, ranges; "
                     "a pair of directions (generic / 1e-7..0.1 deg apart / nearly antipodal): angle preserved by every conversion, angular_separation and "
                     "relative_position_angle against dot/cross products, symmetry; a triple of nearby bodies: circle_diameter within [a, 2a/sqrt(3)], "
                     "straight_line against cross products" % n,
             "samples": [{"input": [10.0, 90.0, 23.44], "checked": "equatorial2ecliptical at the pole within 1e-9 deg of Rx(-eps) u, ecliptical2equatorial returns to the pole"}]}
    return O.findings, stats
