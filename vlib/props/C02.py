"""C02 — Instants survive JDE <-> date/time; input forms agree; Epoch arithmetic."""
import math, datetime
from vlib import common as K, calref as R
from vlib.impl import load

ID = "C02"
MODULES = K.mods("base", "Angle", "Epoch")
REQUIRED = ["iint", "Epoch.__init__", "Epoch.set", "Epoch._compute_jde", "Epoch._check_values",
            "Epoch.check_input_date", "Epoch.get_date", "Epoch.get_full_date", "Epoch.get_month",
            "Epoch.is_julian", "Epoch.is_leap", "Epoch.jde",
            "Epoch.__add__", "Epoch.__sub__", "Epoch.__radd__", "Epoch.__iadd__", "Epoch.__isub__",
            "Epoch.__eq__", "Epoch.__ne__", "Epoch.__lt__", "Epoch.__le__", "Epoch.__gt__", "Epoch.__ge__",
            "Epoch.__float__", "Epoch.__int__"]
THEOREMS = ["C02_date_of_day", "C02_date_monotone", "C02_full_date_grid", "C02_fields_every_float",
            "C02_fields_premise_attained", "C02_input_forms_all", "C02_datetime",
            "C02_forms_grid", "C02_operators", "C02_arith_grid", "C02_arith_every_float", "C02_ctor_within_attained",
            "C02_ctor_exact_ideal", "C02_arith_exact_ideal", "C02_order_ideal", "C02_arith_ideal"]
PROOF_TIMEOUT = {"quick": 2400, "thorough": 3000}
EXHAUSTIVE = False
MANIFEST = {
    "category": "proof",
    "text": ("The property speaks of ANY instant in [0, 5.4e6]; the theorems cover less and say so: "
             "(1) INTEGER DAY NUMBERS AT 0h: the regenerated binary64 model of Epoch.get_date is evaluated by the Coq kernel on "
             "every day number 0..5 399 999 against the independent day count (jdn surjective+injective for all days by "
             "induction/lia), hence the date increases from day to day; "
             "(2) GRIDS: JDE->fields->JDE <= 1e-8 with fields in range, input forms (incl. check_input_date, set, copy, "
             "fractional day <= 1e-9) and (e+x)-e = x <= 1e-8 by kernel evaluation on grids written out in the statements "
             "(175 years x month-boundary days x 16 fractions, etc.), nowhere else; "
             "(3) EVERY FLOAT: hour 0-23, minute 0-59, 0 <= second < 60 for every finite day value get_date can return "
             "(Flocq-based, premise: get_date returned (int, int, finite float in [0,1000]), witnessed, not discharged for "
             "arbitrary JDE); tuple/list/date/copy forms and all comparison / + - += -= radd operators for ALL argument "
             "values in EVERY FloatOps instance (binary64 and ideal reals) -- e +/- x is reduced to the constructor call "
             "Epoch(jde +/- x); that call does NOT store its argument exactly in binary64 (the JDE is re-derived from the "
             "broken-down date, 1 ulp off for 0.2% of JDEs); (e+x)-e = x and e-(e-x) = x to 1e-8 are proved for every finite "
             "float jde in [0,5.4e6], |x| <= 1e6 (Flocq half-ulp bounds) under the witnessed premise that this call is accurate "
             "to 2^-29 day, which itself is known on the grids only; in the IDEAL instance the constructor is proved exact for every real JDE in [-0.5, 5399999.5) (Epoch(j) stores j; "
             "hence (e+x)-e = x exactly), by symbolic evaluation over an abstract day number + a Z round-trip sweep. "
             "Bit-exact correspondence model vs implementation every run; boundary-heavy search oracle of every clause "
             "covers the gap between the grids and 'any instant', and runs call sequences on one object (every view after every mutator "
             "equals that of a fresh Epoch with the same JDE: stale memoised values)."),
    "technique": ("kernel computation over the full day range + grids (vm_compute reflection), lia/induction on the calendar "
                  "spec, Flocq reasoning about binary64 rounding (B64Verified) for the all-floats field ranges, symbolic "
                  "evaluation of the generated text valid for every FloatOps instance, differential correspondence, "
                  "property oracle search with +-1 ulp probes"),
    "design_ref": "8/C02",
}
EXPLANATION = ("Not 'any instant': get_date of the model regenerated from /repo is evaluated by the Coq kernel on every INTEGER day "
               "number 0..5399999 at 0h (16 shards walking Spec.next) and equals the unique valid civil date with that day "
               "count; the JDE->fields->JDE round trip (1e-8), input forms (1e-9) and (e+x)-e = x (1e-8) are kernel-evaluated "
               "on GRIDS that are part of the statements; hour/minute/second ranges are proved for every float day value "
               "(Flocq) given the shape get_date returns; operators and tuple/list/date/copy dispatch are proved for all values "
               "in every FloatOps instance by symbolic evaluation (e +/- x only reduced to a constructor call). The search "
               "oracle covers arbitrary instants with boundary probes.")
CLAUSES = {
    "date at 0h of every INTEGER day number 0 <= z < 5.4e6 is the civil date of z (valid, unique)": "proved [B64, kernel computation over all 5.4e6 day numbers + spec lemmas for all days]; other instants of the day: grid below / searched",
    "date tuple never decreasing as JDE grows": "proved only between different days at 0h [B64 full domain + spec jdn_mono]; two instants inside one day: unproved (searched over sorted probes)",
    "any instant in [0,5.4e6] survives JDE -> fields -> JDE within 1e-8, date = civil date of the day": "GRID ONLY: proved [B64, 175 years x 24 month-boundary days x 16 fractions + 22 days around the 1582 reform]; any other instant: unproved (searched with +-1 ulp .. +-1 s probes around day/month/year/hour/minute boundaries)",
    "hour 0-23, minute 0-59, 0 <= second < 60": "proved for EVERY float [B64 + Flocq, C02_fields_every_float] under the premise that get_date returned (int, int, finite day value in [0,1000]) (attained: witness theorem + grid; premise not discharged for arbitrary JDE); day within the month: grid / integer days only",
    "tuple / list (3..6 items) / date / copy of an Epoch = separate numbers / JDE": "proved [every FloatOps instance incl. B64 and ideal, ALL argument values, symbolic; relational: same result or same exception]; that the result is an Epoch (no exception): grid only",
    "datetime = separate numbers with seconds + microseconds/1e6": "proved [B64, all integer fields, symbolic, relational]",
    "set() vs constructor, check_input_date (numbers, tuple, list, date, datetime, Epoch) = constructor, Epoch(jde) re-derivation, copy within 1e-9": "GRID ONLY: proved [B64, 175 years x 12 months x {first,last day} x 4 times]; elsewhere searched",
    "fractional day versus h/m/s within 1e-9 day": "GRID ONLY: proved [B64, same grid]; elsewhere unproved (searched)",
    "month names": "proved in C01 [B64, every year]; searched here",
    "<, <=, >, >= are the comparisons of the JDEs; == is |diff| < 1e-10; != = not ==; TypeError for other operands": "proved [every FloatOps instance, all floats / all reals, symbolic] + [ideal: iff statements]",
    "Epoch - Epoch = difference of JDEs; x + Epoch, += , -= return what + / - return; TypeError for other operands": "proved [every FloatOps instance, all values, float and int offsets, symbolic]",
    "IDEAL instance: Epoch(j) and e.set(j) store exactly j; e +/- x, x + e, += , -= hold exactly jde +/- x": "proved [ideal, EVERY real j with -0.5 <= j < 5399999.5 (day numbers 0..5399999): symbolic evaluation of the regenerated get_date/_compute_jde/set over an abstract day number + exact recombination of the day fraction + integer decode/encode round trip for every day number by kernel computation over Z (16 shards); C02_ctor_exact_ideal, C02_arith_exact_ideal]; says nothing about binary64 rounding",
    "Epoch +/- x": "REDUCED to the constructor call Epoch(jde +/- x) [every FloatOps instance, symbolic]. Epoch(a) does NOT store a exactly in binary64 (set() re-derives the JDE from the broken-down date; Epoch(4193243.6725671566).jde() = 4193243.672567157): how close it stays is known on the grids only",
    "(e + x) - e = x and e - (e - x) = x to 1e-8 day": "proved for EVERY finite float jde in [0,5.4e6] and |x| <= 1e6 [B64 + Flocq half-ulp bounds, C02_arith_every_float] UNDER THE PREMISE that the constructor call Epoch(fl(jde +/- x)) stores its argument to within 2^-29 = 1.86e-9 day (attained: C02_ctor_within_attained; checked to 1e-8 on the grids; NOT proved for arbitrary floats: needs get_date/_compute_jde for an abstract day number); unconditional on the GRID [B64, 175 years x 12 month starts x 3 fractions x 16 offsets]; ideal instance: not proved; elsewhere searched",
    "call sequences on ONE Epoch object: after every mutator (set() in every input form incl. tuple/list/datetime/date/month name/another Epoch/utc=True/leap_seconds=, +=, -=, e = e + x, x + e) every view (jde, mjd, get_date, get_full_date also with utc=True / leap_seconds=, year, dow, doy, leap, julian, sidereal times, rise_set, str, repr, hash, the six comparisons, e - Epoch) equals the view of a freshly constructed Epoch with the same JDE, bit for bit": "searched only (key sequence-stale-view; 16 mutator forms x 30 views deterministic + random 2-5 step sequences; aimed at a memoised derived value that one mutator forgets to invalidate; the Coq model is purely functional over the single field _jde, so a new cached attribute also breaks stage G/P)",
    "__hash__": "unproved: not translated (hash of a float); not searched",
}


# the ideal-instance constructor theorem (Epoch(j) stores exactly j for every real j in range); other
# properties can list these as "../C02/<file>" in their proof_files and Require Proofs.C02.C02_ctor_ideal
CTOR_IDEAL_FILES = ["C02_ctor_spec.v"] + ["C02_ctor_rt_%02d.v" % k for k in range(16)] + ["C02_ctor_ideal.v"]


def proof_files(tier):
    return (["C02_defs.v"] + ["C02_walk_%02d.v" % k for k in range(16)]
            + ["C02_full_%d.v" % k for k in range(3)] + ["C02_forms_%d.v" % k for k in range(2)]
            + ["C02_arith_%d.v" % k for k in range(4)]
            + ["C02_special.v", "C02_sym.v", "C02_symf.v", "C02_hms.v", "C02_arith.v", "C02_main.v"]
            + CTOR_IDEAL_FILES + ["C02.v"])


NAMES = ["Jan", "Feb", "Mar", "Apr", "May", "Jun", "Jul", "Aug", "Sep", "Oct", "Nov", "Dec"]
LONG = ["January", "February", "March", "April", "May", "June", "July", "August", "September",
        "October", "November", "December"]
JMAX = 5.4e6
SPECIAL_YEARS = [-4712, -4711, -1, 0, 1, 4, 100, 1000, 1500, 1581, 1582, 1583, 1600, 1700, 1858, 1900, 1972,
                 1999, 2000, 2024, 2100, 2400, 6000, 9999, 10000, 10071]


def pydate_ok(y, m, d):
    """datetime is proleptic Gregorian, years 1..9999: e.g. 29 Feb 1500 (Julian leap year) does not exist there"""
    try:
        datetime.date(y, m, d); return True
    except ValueError:
        return False


def nxt(x, k=1):
    for _ in range(abs(k)):
        x = math.nextafter(x, math.inf if k > 0 else -math.inf)
    return x


def boundary_jdes(rng, n_years):
    """JDE probes: +-1 ulp .. +-1 s around day, month and year boundaries, the reform, and random ones"""
    out = []
    years = SPECIAL_YEARS + [rng.randint(-4712, 10071) for _ in range(n_years)]
    deltas = [0.0, 1e-9, 1e-6, 0.5 / 86400, 1.0 / 86400, 1e-3]
    for y in years:
        for m in ([1, 2, 3, 12] + [rng.randint(1, 12)]):
            z = R.jdn(y, m, 1)
            for b in (z - 0.5, z + 0.5, z - 1.5, z + rng.randint(1, 27) - 0.5):
                if b < 0 or b > JMAX: continue
                out += [b, nxt(b), nxt(b, -1), nxt(b, 2), nxt(b, -2)]
                out += [b + d for d in deltas] + [b - d for d in deltas]
    # hour / minute / second boundaries inside a day (carry errors: second = 60.0, minute = 60, hour = 24),
    # at small JDE (fine float grid: the fraction comes within 1e-10 s of the boundary) and large JDE
    for z in [0, 1, 16, 31, 59, 365, 1000] + [rng.randint(0, 5399999) for _ in range(n_years)]:
        for k in [60 * rng.randint(1, 23), rng.randint(1, 1439), 1439, 1]:
            for b in (z - 0.5 + k / 1440.0, z - 0.5 + (60 * k + rng.randint(1, 59)) / 86400.0):
                if 0 <= b <= JMAX:
                    out += [b, nxt(b), nxt(b, -1), nxt(b, -2), b - 1e-9, b + 1e-9, b - 1e-12]
    for b in (2299160.5, 2299159.5, 2299161.5, 2299160.0):
        out += [b, nxt(b), nxt(b, -1)] + [b + d for d in deltas] + [b - d for d in deltas]
    out += [0.0, 0.5, 1.0, nxt(0.5, -1), JMAX, nxt(JMAX, -1), 2451545.0, 2400000.5]
    out += [rng.uniform(0, JMAX) for _ in range(20 * n_years)]
    out += [rng.randint(0, 5399999) + rng.choice([0.0, 0.5, 0.25, 0.75, 0.999999999, 1 / 3, 0.5 - 1e-9]) for _ in range(10 * n_years)]
    return [x for x in out if 0.0 <= x <= JMAX]


def rand_date(rng):
    y = rng.choice(SPECIAL_YEARS) if rng.random() < 0.3 else rng.randint(-4712, 10071)
    m = rng.randint(1, 12)
    d = rng.choice([1, R.mlen(y, m), rng.randint(1, R.mlen(y, m))])
    if y == 1582 and m == 10 and 5 <= d <= 14: d = rng.choice([4, 15])
    return y, m, d


def rand_time(rng):
    r = rng.random()
    if r < 0.2: return (0, 0, 0, 0)
    if r < 0.4: return (23, 59, 59, rng.choice([0, 999999, 500000]))
    return (rng.randint(0, 23), rng.randint(0, 59), rng.randint(0, 59), rng.randint(0, 999999))


def cases(rng, tier):
    n = 60 if tier == "quick" else 600
    cs = []
    js = boundary_jdes(rng, 3)
    rng.shuffle(js)
    for x in js[:2 * n]:
        k = rng.random()
        if k < 0.5: cs.append("Epoch(%r).get_full_date()" % x)
        elif k < 0.7: cs.append("Epoch(%r).jde()" % x)
        elif k < 0.85: cs.append("Epoch(%r).get_date()" % x)
        else: cs.append("Epoch(Epoch(%r)).jde()" % x)
    for _ in range(n):
        y, m, d = rand_date(rng)
        h, mi, si, us = rand_time(rng)
        s = si + us / 1e6
        six = "%d, %d, %d, %d, %d, %r" % (y, m, d, h, mi, s)
        cs.append("Epoch(%s).jde()" % six)
        cs.append("Epoch((%s)).jde()" % six)
        cs.append("Epoch([%s]).jde()" % six)
        if pydate_ok(y, m, d):
            cs.append("Epoch(datetime.datetime(%d, %d, %d, %d, %d, %d, %d)).jde()" % (y, m, d, h, mi, si, us))
            cs.append("Epoch(datetime.date(%d, %d, %d)).jde()" % (y, m, d))
            cs.append("Epoch.check_input_date(datetime.datetime(%d, %d, %d, %d, %d, %d, %d)).jde()" % (y, m, d, h, mi, si, us))
        cs.append("Epoch(%d, %r, %r).jde()" % (y, rng.choice([NAMES[m - 1], LONG[m - 1], LONG[m - 1].upper()]),
                                               d + (3600 * h + 60 * mi + s) / 86400))
        cs.append("Epoch(12345.5).set(%s)" % six)
        cs.append("Epoch.check_input_date(%s).jde()" % six)
        cs.append("Epoch.check_input_date((%s)).jde()" % six)
        cs.append("Epoch.check_input_date([%d, %d, %d]).jde()" % (y, m, d))
        cs.append("Epoch.check_input_date(Epoch(%s)).jde()" % six)
    for _ in range(n):
        a = rng.choice(js)
        x = rng.choice([0, 1, -1, 0.5, -0.25, 1e-3, 365.25, -36525, 1e6, -1e6, 1 / 86400, rng.uniform(-1e6, 1e6), rng.randint(-1000, 1000)])
        if 0 <= a + x <= JMAX:
            cs.append("(Epoch(%r) + %r).jde()" % (a, x))
            cs.append("(%r + Epoch(%r)).jde()" % (x, a))
            cs.append("(Epoch(%r) + %r) - Epoch(%r)" % (a, x, a))
            cs.append("Epoch(%r).__iadd__(%r).jde()" % (a, x))
        if 0 <= a - x <= JMAX:
            cs.append("(Epoch(%r) - %r).jde()" % (a, x))
            cs.append("Epoch(%r).__isub__(%r).jde()" % (a, x))
        b = rng.choice([a, nxt(a), nxt(a, -1), a + 5e-11, a + 2e-10, rng.choice(js)])
        op = rng.choice(["<", "<=", ">", ">=", "==", "!="])
        cs.append("Epoch(%r) %s Epoch(%r)" % (a, op, b))
        cs.append("Epoch(%r) %s %r" % (a, op, b))
    cs += ["Epoch(2451545.0) < 'a'", "Epoch(2451545.0) == None", "Epoch(2451545.0) + 'a'", "Epoch(2451545.0) - [1]",
           "Epoch(2000, 1)", "Epoch((2000, 1))", "Epoch('x')", "Epoch().jde()", "Epoch.check_input_date()",
           "Epoch.check_input_date(2000, 1)", "Epoch.check_input_date((2000, 1))", "Epoch.check_input_date('x')",
           "float(Epoch(2451545.25))", "int(Epoch(2451545.75))", "Epoch(2451545.25)()",
           "Epoch(2299160.5).get_full_date()", "Epoch(2299160.4999999995).get_full_date()",
           "Epoch(1582, 10, 4, 23, 59, 59.999).jde()", "Epoch(2451545.0).__iadd__('a')", "Epoch(2451545.0).__isub__(None)",
           "Epoch(2000, None, 1)", "Epoch(2000, [1], 1)", "Epoch.check_input_date(2000, (1,), 1)",
           "Epoch.check_input_date(2000, 1, 1, 6, 30, 15.5).jde()", "Epoch.check_input_date([2000, 1, 1, 6, 30, 15.5]).jde()", "Epoch(1582, 10, 15).jde()", "Epoch(1582, 10, 10)"]
    return cs


class Finder:
    def __init__(self):
        self.findings, self.n, self.nontriv = [], 0, 0

    def add(self, key, what, inp, replay_expr):
        if sum(1 for f in self.findings if f["key"] == key) >= 3: return
        self.findings.append({"key": key, "what": what, "input": inp,
                              "replay": "PYTHONPATH=/repo /venv/bin/python -c \"import datetime; from pymeeus.Epoch import Epoch; print(%s)\"" % replay_expr})


def check_jde(Epoch, F, x):
    """clause (a) on one JDE; returns the full-date tuple (or None)"""
    F.n += 1
    try:
        e = Epoch(x)
        fd = e.get_full_date()
        gd = e.get_date()
        back = e.jde()
    except Exception as ex:
        F.add("jde-raises", "Epoch(%r) / get_full_date raises %r" % (x, ex), x, "Epoch(%r).get_full_date()" % x)
        return None
    y, m, d, h, mi, s = fd
    if not (isinstance(y, int) and isinstance(m, int) and isinstance(d, int) and isinstance(h, int) and isinstance(mi, int)):
        F.add("field-type", "Epoch(%r).get_full_date() = %r: non-integer field" % (x, fd), x, "Epoch(%r).get_full_date()" % x)
        return None
    if not (0 <= h <= 23 and 0 <= mi <= 59 and 0.0 <= s < 60.0):
        F.add("field-range", "Epoch(%r).get_full_date() = %r: hour/minute/second outside 0-23 / 0-59 / [0,60)" % (x, fd),
              x, "Epoch(%r).get_full_date()" % x)
    # compare instants, not fields: within 1e-8 day of midnight either neighbouring date is right
    zday = math.floor(x + 0.5)
    wants = {R.civil_of_jdn(z) for z in {math.floor(x + 0.5 - 1e-8), zday, math.floor(x + 0.5 + 1e-8)} if z >= 0}
    if (y, m, d) not in wants:
        F.add("date-wrong", "Epoch(%r).get_full_date() = %r, but day number %d is the civil date %r" % (x, fd, zday, R.civil_of_jdn(zday)),
              x, "Epoch(%r).get_full_date()" % x)
    elif not R.valid(y, m, d):
        F.add("date-invalid", "Epoch(%r) gives the non-existent date %r" % (x, (y, m, d)), x, "Epoch(%r).get_full_date()" % x)
    if tuple(gd[:2]) != (y, m) or abs(gd[2] - (d + (h + (mi + s / 60.0) / 60.0) / 24.0)) > 1e-8:
        F.add("get-date-vs-full", "Epoch(%r).get_date() = %r disagrees with get_full_date %r" % (x, gd, fd),
              x, "Epoch(%r).get_date(), Epoch(%r).get_full_date()" % (x, x))
    if abs(back - x) > 1e-9:
        F.add("jde-input-form", "Epoch(%r).jde() = %r differs from the given JDE by %.3g day (> 1e-9)" % (x, back, back - x),
              x, "Epoch(%r).jde()" % x)
    try:
        r = Epoch(y, m, d, h, mi, s).jde()
        if abs(r - x) > 1e-8:
            F.add("roundtrip", "JDE %r -> %r -> JDE %r: off by %.3g day (> 1e-8)" % (x, fd, r, r - x), x,
                  "Epoch(*Epoch(%r).get_full_date()).jde()" % x)
    except Exception as ex:
        F.add("roundtrip-raises", "Epoch%r (fields of JDE %r) raises %r" % (fd, x, ex), x, "Epoch(*Epoch(%r).get_full_date())" % x)
    F.nontriv += 1
    return fd


def check_forms(Epoch, F, rng, y, m, d, t):
    h, mi, si, us = t
    s = si + us / 1e6
    six = (y, m, d, h, mi, s)
    F.n += 1
    try:
        A = Epoch(*six).jde()
    except Exception as ex:
        F.add("construct-raises", "Epoch%r raises %r" % (six, ex), list(six), "Epoch%r" % (six,))
        return
    forms = [("tuple", "Epoch(%r)" % (six,)), ("list", "Epoch(%r)" % (list(six),)),
             ("copy", "Epoch(Epoch%r)" % (six,)), ("jde", "Epoch(Epoch%r.jde())" % (six,)),
             ("set", "(lambda e: (e.set%r, e)[1])(Epoch(12345.5))" % (six,)),
             ("set-tuple", "(lambda e: (e.set(%r), e)[1])(Epoch(2451545.0))" % (six,)),
             ("month-short", "Epoch(%d, %r, %d, %d, %d, %r)" % (y, NAMES[m - 1], d, h, mi, s)),
             ("month-long", "Epoch(%d, %r, %d, %d, %d, %r)" % (y, rng.choice([LONG[m - 1], LONG[m - 1].upper(), LONG[m - 1].lower()]), d, h, mi, s)),
             ("fractional-day", "Epoch(%d, %d, %r)" % (y, m, d + (3600 * h + 60 * mi + s) / 86400)),
             ("fractional-day-hms", "Epoch(%d, %d, %r, 0, %d, %r)" % (y, m, d + h / 24.0, mi, s)),
             ("check_input_date-numbers", "Epoch.check_input_date%r" % (six,)),
             ("check_input_date-tuple", "Epoch.check_input_date(%r)" % (six,)),
             ("check_input_date-list", "Epoch.check_input_date(%r)" % (list(six),)),
             ("check_input_date-epoch", "Epoch.check_input_date(Epoch%r)" % (six,))]
    if pydate_ok(y, m, d):
        forms += [("datetime", "Epoch(datetime.datetime(%d, %d, %d, %d, %d, %d, %d))" % (y, m, d, h, mi, si, us)),
                  ("check_input_date-datetime", "Epoch.check_input_date(datetime.datetime(%d, %d, %d, %d, %d, %d, %d))" % (y, m, d, h, mi, si, us))]
    env = {"Epoch": Epoch, "datetime": datetime}
    for name, expr in forms:
        F.n += 1
        try:
            v = eval(expr, env).jde()
        except Exception as ex:
            F.add("form-" + name + "-raises", "%s raises %r" % (expr, ex), expr, expr + ".jde()")
            continue
        if abs(v - A) > 1e-9:
            F.add("form-" + name, "%s.jde() = %r but Epoch%r.jde() = %r (differ by %.3g day > 1e-9)" % (expr, v, six, A, v - A),
                  expr, "%s.jde(), Epoch%r.jde()" % (expr, six))
    # date-only forms
    try:
        D = Epoch(y, m, d).jde()
        dforms = [("check_input_date-3", "Epoch.check_input_date(%d, %d, %d)" % (y, m, d)),
                  ("check_input_date-3tuple", "Epoch.check_input_date((%d, %d, %d))" % (y, m, d))]
        if pydate_ok(y, m, d):
            dforms += [("date", "Epoch(datetime.date(%d, %d, %d))" % (y, m, d)),
                       ("check_input_date-date", "Epoch.check_input_date(datetime.date(%d, %d, %d))" % (y, m, d))]
        for name, expr in dforms:
            F.n += 1
            v = eval(expr, env).jde()
            if abs(v - D) > 1e-9:
                F.add("form-" + name, "%s.jde() = %r but Epoch(%d,%d,%d).jde() = %r" % (expr, v, y, m, d, D), expr,
                      "%s.jde(), Epoch(%d,%d,%d).jde()" % (expr, y, m, d))
    except Exception as ex:
        F.add("form-date-raises", "date-only form of %r raises %r" % ((y, m, d), ex), [y, m, d], "Epoch(%d,%d,%d)" % (y, m, d))
    F.nontriv += 1


def check_arith(Epoch, F, a, x):
    F.n += 1
    ok = False
    try:
        e = Epoch(a)
        j = e.jde()
        if 0 <= a + x <= JMAX:
            ok = True
            p = e + x
            if abs((p - e) - x) > 1e-8:
                F.add("add-sub", "(Epoch(%r) + %r) - Epoch(%r) = %r (off by %.3g > 1e-8)" % (a, x, a, p - e, (p - e) - x), [a, x],
                      "(Epoch(%r) + %r) - Epoch(%r)" % (a, x, a))
            q = x + e
            if q.jde() != p.jde():
                F.add("radd", "%r + Epoch(%r) = JDE %r but Epoch + x = JDE %r" % (x, a, q.jde(), p.jde()), [a, x],
                      "(%r + Epoch(%r)).jde(), (Epoch(%r) + %r).jde()" % (x, a, a, x))
            r = Epoch(a); r += x
            if not isinstance(r, Epoch) or r.jde() != p.jde():
                F.add("iadd", "e = Epoch(%r); e += %r gives %r but e + x has JDE %r" % (a, x, getattr(r, "jde", lambda: r)(), p.jde()), [a, x],
                      "(lambda e: e.__iadd__(%r))(Epoch(%r)).jde(), (Epoch(%r) + %r).jde()" % (x, a, a, x))
            if e.jde() != j:
                F.add("operand-mutated", "Epoch(%r) changed by + %r" % (a, x), [a, x], "Epoch(%r) + %r" % (a, x))
        if 0 <= a - x <= JMAX:
            ok = True
            m = e - x
            if abs((e - m) - x) > 1e-8:
                F.add("sub-sub", "e - (e - x) for e = Epoch(%r), x = %r is %r (off by %.3g > 1e-8)" % (a, x, e - m, (e - m) - x), [a, x],
                      "Epoch(%r) - (Epoch(%r) - %r)" % (a, a, x))
            r = Epoch(a); r -= x
            if not isinstance(r, Epoch) or r.jde() != m.jde():
                F.add("isub", "e = Epoch(%r); e -= %r gives %r but e - x has JDE %r" % (a, x, getattr(r, "jde", lambda: r)(), m.jde()), [a, x],
                      "(lambda e: e.__isub__(%r))(Epoch(%r)).jde(), (Epoch(%r) - %r).jde()" % (x, a, a, x))
            if 0 <= a + x <= JMAX and abs(((e + x) - (e - x)) - 2 * x) > 2e-8:
                F.add("add-vs-sub", "(e + x) - (e - x) != 2x for e = Epoch(%r), x = %r" % (a, x), [a, x],
                      "(Epoch(%r) + %r) - (Epoch(%r) - %r)" % (a, x, a, x))
    except Exception as ex:
        F.add("arith-raises", "arithmetic on Epoch(%r) with %r raises %r" % (a, x, ex), [a, x], "Epoch(%r) + %r" % (a, x))
    if ok: F.nontriv += 1


def check_order(Epoch, F, a, b):
    F.n += 1
    try:
        ea, eb = Epoch(a), Epoch(b)
        ja, jb = ea.jde(), eb.jde()
        got = {"<": ea < eb, "<=": ea <= eb, ">": ea > eb, ">=": ea >= eb, "==": ea == eb, "!=": ea != eb}
        gotf = {"<": ea < jb, "<=": ea <= jb, ">": ea > jb, ">=": ea >= jb, "==": ea == jb, "!=": ea != jb}
    except Exception as ex:
        F.add("compare-raises", "comparing Epoch(%r), Epoch(%r) raises %r" % (a, b, ex), [a, b], "Epoch(%r) < Epoch(%r)" % (a, b))
        return
    # literally: all six operators order the Epochs as their JDE values
    want = {"<": ja < jb, "<=": ja <= jb, ">": ja > jb, ">=": ja >= jb, "==": ja == jb, "!=": ja != jb}
    for op, w in want.items():
        for kind, g in (("epoch", got), ("float", gotf)):
            if g[op] is not w:
                # known finding (documented design: == and != use the tolerance base.TOL = 1e-10 day while < and > are
                # exact): two different JDEs less than 1e-10 apart compare equal AND ordered
                if op in ("==", "!=") and 0.0 < abs(ja - jb) < 1e-10 and g["=="] is True and g["!="] is False:
                    F.add("order-eq-within-tolerance", "Epoch(%r) %s %s(%r) is %r although the JDEs %r, %r differ (by %.3g < 1e-10: == uses base.TOL, < does not)"
                          % (a, op, "Epoch" if kind == "epoch" else "", b, g[op], ja, jb, abs(ja - jb)),
                          [a, b], "Epoch(%r) %s %s" % (a, op, ("Epoch(%r)" % b) if kind == "epoch" else repr(jb)))
                    continue
                F.add("order-" + {"<": "lt", "<=": "le", ">": "gt", ">=": "ge", "==": "eq", "!=": "ne"}[op] + "-" + kind,
                      "Epoch(%r) %s %s(%r) is %r but the JDEs are %r, %r" % (a, op, "Epoch" if kind == "epoch" else "", b, g[op], ja, jb),
                      [a, b], "Epoch(%r) %s %s" % (a, op, ("Epoch(%r)" % b) if kind == "epoch" else repr(jb)))
    if got["!="] is not (not got["=="]):
        F.add("order-ne-not-eq", "Epoch(%r) != Epoch(%r) is %r while == is %r" % (a, b, got["!="], got["=="]), [a, b],
              "Epoch(%r) != Epoch(%r), Epoch(%r) == Epoch(%r)" % (a, b, a, b))
    F.nontriv += 1


# ---------------------------------------------------------------------------------------------
# call sequences on ONE Epoch object: after every mutator every view equals the view of a freshly
# constructed Epoch with the same JDE (bit for bit) -- catches a derived value memoised in an
# attribute and not invalidated by one of the mutators / input forms
SEQ_VIEWS = [
    ("jde", "e.jde()"), ("mjd", "e.mjd()"), ("call", "e()"), ("float", "float(e)"), ("int", "int(e)"),
    ("get_date", "e.get_date()"), ("get_full_date", "e.get_full_date()"),
    ("get_date-utc", "e.get_date(utc=True)"), ("get_full_date-utc", "e.get_full_date(utc=True)"),
    ("get_date-leap_seconds", "e.get_date(leap_seconds=35.0)"),
    ("get_full_date-leap_seconds", "e.get_full_date(leap_seconds=35.0)"),
    ("year", "e.year()"), ("dow", "e.dow()"), ("dow-string", "e.dow(as_string=True)"), ("doy", "e.doy()"),
    ("leap", "e.leap()"), ("julian", "e.julian()"),
    ("mean_sidereal_time", "e.mean_sidereal_time()"),
    ("apparent_sidereal_time", "e.apparent_sidereal_time(23.44357, -3.788 / 3600.0)"),
    ("rise_set", "e.rise_set(40.0, 15.0)"),
    ("str", "str(e)"), ("repr", "repr(e)"), ("hash", "hash(e)"),
    ("lt", "e < REF"), ("le", "e <= REF"), ("eq", "e == REF"), ("ne", "e != REF"), ("gt", "e > REF"), ("ge", "e >= REF"),
    ("sub-epoch", "e - REF"),
]


def seq_norm(v):
    """comparable, bit-exact image of a view result"""
    cn = type(v).__name__
    if cn == "Epoch": return ("Epoch", seq_norm(v.jde()))
    if cn == "Angle": return ("Angle", seq_norm(float(v)))
    if isinstance(v, float): return ("f", v.hex() if v == v else "nan")
    if isinstance(v, (tuple, list)): return (cn,) + tuple(seq_norm(x) for x in v)
    return v


def seq_views(env):
    out = {}
    for name, expr in SEQ_VIEWS:
        try:
            out[name] = seq_norm(eval(expr, env))
        except Exception as ex:
            out[name] = ("raises", type(ex).__name__)
    return out


def seq_mutator(rng):
    """one mutator as a Python statement on the variable e"""
    if rng.random() < 0.6:
        y = rng.choice([1972, 1987, 1999, 2000, 2012, 2016, 2017, 2024, 2030, 1582, 1900, -500, 333])
    else:
        y = rng.randint(-4712, 9999)
    m = rng.randint(1, 12)
    d = rng.randint(1, R.mlen(y, m))
    if y == 1582 and m == 10 and 5 <= d <= 14: d = 15
    h, mi, si, us = rand_time(rng)
    sec = si + us / 1e6
    six = "%d, %d, %d, %d, %d, %r" % (y, m, d, h, mi, sec)
    x = rng.choice([1, -1, 0.5, -0.25, 7, 365.25, 1 / 86400, rng.uniform(-1000, 1000), rng.randint(-500, 500)])
    jd = rng.choice([2451545.0, 2299160.5, 2441317.5, rng.uniform(0, JMAX), float(rng.randint(0, 5399999)) + 0.5])
    forms = ["e.set(%d, %d, %d)" % (y, m, d), "e.set(%d, %d, %r)" % (y, m, d + rng.random()), "e.set(%s)" % six,
             "e.set((%s))" % six, "e.set([%s])" % six, "e.set((%d, %d, %d))" % (y, m, d), "e.set([%d, %d, %r])" % (y, m, d + 0.25),
             "e.set(%d, %r, %d)" % (y, rng.choice([NAMES[m - 1], LONG[m - 1], LONG[m - 1].upper()]), d),
             "e.set(Epoch(%s))" % six, "e.set(Epoch(%r))" % jd, "e.set(%r)" % jd, "e.set(%d)" % int(jd),
             "e.set(%d, %d, %d, utc=True)" % (y, m, d), "e.set(%s, utc=True)" % six,
             "e.set(%s, leap_seconds=30.0)" % six, "e.set((%s), utc=True)" % six, "e.set()",
             "e += %r" % x, "e -= %r" % x, "e = e + %r" % x, "e = e - %r" % x, "e = %r + e" % x]
    if pydate_ok(y, m, d):
        forms += ["e.set(datetime.datetime(%d, %d, %d, %d, %d, %d, %d))" % (y, m, d, h, mi, si, us),
                  "e.set(datetime.date(%d, %d, %d))" % (y, m, d),
                  "e.set(datetime.datetime(%d, %d, %d, %d, %d, %d), utc=True)" % (y, m, d, h, mi, si)]
    return rng.choice(forms)


def check_sequence(Epoch, F, start, steps):
    """steps: list of ('view', expr) / ('mut', stmt) run on one object created by `start`"""
    env = {"Epoch": Epoch, "datetime": datetime, "REF": Epoch(2451545.0)}
    prefix = ["e = %s" % start]
    try:
        exec(prefix[0], env)
    except Exception:
        return
    F.n += 1
    for kind, src in steps:
        if kind == "view":
            try: eval(src, env)
            except Exception: pass
            prefix.append(src)
            continue
        try:
            exec(src, env)
        except Exception:
            prefix.append("# %s raised" % src)
            break        # a refused input: nothing to compare (refusals are other clauses)
        prefix.append(src)
        e = env["e"]
        if type(e).__name__ != "Epoch":
            F.add("sequence-not-an-epoch", "after `%s` the object is a %s" % ("; ".join(prefix), type(e).__name__),
                  prefix, "exec(%r)" % "; ".join(prefix))
            return
        j = e.jde()
        if not (-1.0 <= j <= JMAX + 1.0e6): break
        F.n += 1
        fresh = Epoch(j)
        how = "Epoch(%r)" % j
        if fresh.jde() != j:                      # Epoch(j) re-derives the JDE (1 ulp off for 0.2%% of floats)
            fresh = Epoch(); fresh._jde = j
            how = "Epoch() with _jde = %r" % j
        got = seq_views(env)
        want = seq_views({"Epoch": Epoch, "datetime": datetime, "REF": env["REF"], "e": fresh})
        for name, expr in SEQ_VIEWS:
            if got[name] != want[name]:
                code = "; ".join(x for x in prefix if not x.startswith("#"))
                F.add("sequence-stale-view",
                      "after `%s` the view %s gives %r, a fresh %s gives %r" % (code, expr, got[name], how, want[name]),
                      prefix, "(lambda ns: (exec(%r, ns), eval(%r, ns), eval(%r, dict(ns, e=ns['Epoch'](ns['e'].jde()))))[1:])({'Epoch': Epoch, 'datetime': datetime, 'REF': Epoch(2451545.0)})"
                      % (code, expr, expr))
                return
        if e.jde() != j and not (e.jde() != e.jde()):
            F.add("sequence-view-mutates", "the views changed the JDE of the object from %r to %r after `%s`" % (j, e.jde(), "; ".join(prefix)),
                  prefix, "exec(%r)" % "; ".join(prefix))
            return
        F.nontriv += 1


def search_sequences(Epoch, F, rng, n_random):
    views = [v for _, v in SEQ_VIEWS]
    # deterministic: view -> mutator -> (all views), for every view that could be memoised and the main input forms
    muts = ["e.set((1987, 6, 19.5))", "e.set([1987, 6, 19, 12, 30, 15.5])", "e.set(Epoch(2446966.25))", "e.set(1987, 6, 19.5)",
            "e.set(2446966.25)", "e.set(datetime.datetime(1987, 6, 19, 12, 30, 15))", "e.set(datetime.date(1987, 6, 19))",
            "e.set(1987, 'June', 19.5)", "e.set(1987, 6, 19.5, utc=True)", "e.set(1987, 6, 19, 12, 0, 0.0, leap_seconds=30.0)",
            "e.set((2016, 12, 31, 23, 59, 59.5), utc=True)", "e.set()", "e += 1.5", "e -= 1.5", "e = e + 1.5", "e = 2 + e"]
    for mu in muts:
        for v in views:
            check_sequence(Epoch, F, "Epoch(2000, 1, 1.5)", [("view", v), ("mut", mu)])
        check_sequence(Epoch, F, "Epoch(2017, 1, 1, 0, 0, 10.0, utc=True)",
                       [("view", v) for v in views] + [("mut", mu), ("view", "e.get_date(utc=True)"), ("mut", "e.set((1999, 1, 1.0))")])
    # random sequences of 2-5 steps
    for _ in range(n_random):
        y, m, d = rand_date(rng)
        start = rng.choice(["Epoch(%d, %d, %d)" % (y, m, d), "Epoch(%r)" % rng.uniform(0, JMAX), "Epoch(2451545.0)",
                            "Epoch(%d, %d, %d, utc=True)" % (rng.randint(1972, 2030), m, min(d, 28)), "Epoch()"])
        steps = []
        for _k in range(rng.randint(2, 5)):
            if rng.random() < 0.5: steps.append(("view", rng.choice(views)))
            else: steps.append(("mut", seq_mutator(rng)))
        if not any(k == "mut" for k, _ in steps): steps.append(("mut", seq_mutator(rng)))
        check_sequence(Epoch, F, start, steps)


def search(rng, tier, deep):
    mods = load(["Epoch"])
    Epoch = mods["Epoch"].Epoch
    F = Finder()
    big = deep or tier == "thorough"
    js = sorted(set(boundary_jdes(rng, 150 if big else 25)))
    # (a) per JDE + monotone date tuple over the sorted probes
    prev = None
    for x in js:
        fd = check_jde(Epoch, F, x)
        if fd is not None and prev is not None and tuple(fd) < tuple(prev[1]):      # literal: never decreasing
            F.add("date-decreasing", "JDE %r -> %r but the smaller JDE %r -> %r" % (x, fd, prev[0], prev[1]), [prev[0], x],
                  "Epoch(%r).get_full_date(), Epoch(%r).get_full_date()" % (prev[0], x))
        if fd is not None: prev = (x, fd)
    # a dense run of consecutive days through the reform and a few month ends
    for z0 in [2299150, R.jdn(1900, 2, 25), R.jdn(2000, 2, 25), R.jdn(-4712, 1, 1), R.jdn(10071, 12, 1) if big else R.jdn(2023, 12, 25)]:
        for z in range(z0, z0 + 40):
            if z + 0.5 <= JMAX: check_jde(Epoch, F, z - 0.5); check_jde(Epoch, F, nxt(z + 0.5, -1))
    # (b) input forms
    for _ in range(2000 if big else 250):
        y, m, d = rand_date(rng)
        check_forms(Epoch, F, rng, y, m, d, rand_time(rng))
    for dd in (4, 15):
        check_forms(Epoch, F, rng, 1582, 10, dd, (23, 59, 59, 999999))
    # (c) arithmetic
    offs = [0, 1, -1, 7, 0.5, -0.25, 1e-3, 365.25, -36525.0, 1e6, -1e6, 1000000, 1 / 86400, 0.1, -1 / 3]
    for _ in range(6000 if big else 700):
        a = rng.choice(js)
        x = rng.choice(offs) if rng.random() < 0.5 else rng.choice([rng.uniform(-1e6, 1e6), rng.uniform(-10, 10), rng.randint(-100000, 100000)])
        check_arith(Epoch, F, a, x)
    # (d) ordering
    for _ in range(6000 if big else 700):
        a = rng.choice(js)
        b = rng.choice([a, nxt(a), nxt(a, -1), a + 3e-9, a - 3e-9, a + 1.0, rng.choice(js), rng.uniform(0, JMAX)])
        if 0 <= b <= JMAX: check_order(Epoch, F, a, b)
    # (e) call sequences on one object (memoised views must be invalidated by every mutator)
    search_sequences(Epoch, F, rng, 3000 if big else 300)
    stats = {"evaluations": F.n, "distinct_nontrivial": F.nontriv,
             "rule": ("JDE probes at +-{0,1,2 ulp,1e-9,1e-6,0.5 s,1 s,1e-3} around day/month/year boundaries of %d years, the 1582 reform, "
                      "random JDE in [0,5.4e6]; each: field ranges/types, date = civil date of the day, JDE->fields->JDE <= 1e-8, "
                      "Epoch(x).jde() <= 1e-9, date tuple non-decreasing over sorted probes; every constructor signature incl. month names, "
                      "set(), check_input_date <= 1e-9; offsets |x| <= 1e6 incl. +=, -=, x + e; random/adjacent pairs for the six comparisons; call sequences on ONE object "
                      "(view -> mutator -> all 30 views vs a fresh Epoch of the same JDE, bit for bit; 16 mutator forms x 30 views deterministic + random 2-5 step sequences)"
                      % (len(SPECIAL_YEARS) + (150 if big else 25))),
             "samples": [{"input": 2299160.4999999995, "checked": "1582-10-04 23:59:59.99996, rebuilt JDE within 1e-8, next float is 1582-10-15 0h"}],
             "exhaustive_search": False}
    return F.findings, stats
