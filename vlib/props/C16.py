"""C16 — weekday, day of year, fractional year and sidereal time follow the JDE."""
import math, sys
from fractions import Fraction as Fr
from vlib import common as K, calref as R
from vlib.impl import load

ID = "C16"
MODULES = K.mods("base", "Angle", "Epoch")
REQUIRED = ["iint", "Epoch.__init__", "Epoch.set", "Epoch._compute_jde", "Epoch.get_date", "Epoch.dow",
            "Epoch.get_doy", "Epoch.doy", "Epoch.doy2date", "Epoch.year", "Epoch.leap", "Epoch.is_leap",
            "Epoch.mean_sidereal_time", "Epoch.apparent_sidereal_time", "Epoch.mjd", "Epoch.__call__"]
THEOREMS = ["C16_epoch", "C16_dow", "C16_dow_within_day", "C16_dow_next", "C16_dow_gregorian", "C16_get_doy", "C16_doy_int_args", "C16_doy_dec31", "C16_doy2date", "C16_doy_refused", "C16_leap", "C16_methods", "C16_methods_month_ends", "C16_year_order", "C16_mjd", "C16_sidereal",
            "C16_sidereal_ideal", "C16_sidereal_rate", "C16_apparent_ideal", "C16_dow_b64", "C16_sidereal_b64",
            "C16_equation_of_equinoxes_bound", "C16_equation_of_equinoxes"]
PROOF_TIMEOUT = {"quick": 2400, "thorough": 3400}
EXHAUSTIVE = True
MANIFEST = {
    "category": "proof",
    "text": ("T1: the regenerated binary64 model of Epoch.dow/get_doy/doy2date/is_leap/mjd is evaluated by the Coq kernel on every "
             "civil date -4712..6000 against the independent day count CalSpec.jdn and lifted to forall-theorems (weekday = (jdn+1) mod 7 "
             "stepping by one, day of year = jdn - jdn(1 Jan) + 1 with exact inverse, leap rule, MJD); doy()/leap()/year() are proved, on the "
             "generated text, to be get_date followed by the static functions for every Epoch object, giving year() = y + (doy-1)/365|366 whose "
             "floor and strict day-to-day increase are checked on every date; mean sidereal time is compared by the kernel with the exact "
             "rational value of the IAU 1982 expression (1e-7 day, result in [0,1)) at 117 387 instants; bit-exact correspondence model vs "
             "implementation every run; ideal (real-number) instance: mean sidereal time in [0,1) and congruent mod 1 to the independently "
             "transcribed IAU 1982 expression for EVERY real JDE >= 0, rate 1.00273790935 exactly, apparent = mean + dpsi cos(eps)/15; "
             "size of the equation of the equinoxes: |apparent - mean| < 1.2 s proved for T in [-10.5, 8.5] centuries (years 950..2850) under the amplitude "
             "bounds the C08 check proves for nutation_longitude / true_obliquity (|dpsi| <= 17.1996 + 0.01742|T| + 2.25 arcsec, eps = Laskar obliquity +- 11 arcsec; "
             "interval arithmetic), elsewhere by correspondence and search (known finding beyond -2000..4000).  Binary64, ALL floats (Flocq bridge B64Verified/B64Mono, symbolic "
             "evaluation b64run): dow = floor(JDE+1.5) mod 7 for every finite JDE in [0,2^51); mean_sidereal_time returns a float in [0,1) "
             "(exact fractional part of a non-negative finite float) for every finite JDE in [0,2^23]."),
    "technique": ("kernel computation over the full finite domain (vm_compute reflection) + symbolic composition lemmas on the "
                  "generated text + lia on the calendar spec + exact rational arithmetic for IAU 1982 + bit-exact differential "
                  "correspondence + oracle search + symbolic evaluation of the generated text over the reals (pyrun, floor/fmod lemmas, field)"),
    "design_ref": "8/C16",
}
EXPLANATION = ("The model regenerated from /repo is evaluated by the Coq kernel on EVERY civil date -4712..6000 (16 shards, vm_compute), with the "
               "Epoch object at 0h of the day (JDE = jdn - 0.5; that this is Epoch(y,m,d) and that get_date reads the date back is C01's theorem, "
               "re-checked here on the first and last day of every month): dow = (jdn+1) mod 7; get_doy = jdn - jdn(y,1,1) + 1; doy2date inverts "
               "it; non-existent days refused; MJD = jdn - 2400001; is_leap = leap rule in force.  doy()/leap()/year() are shown, on the generated "
               "text and for every Epoch object, to be get_date followed by the static functions, so year() = y + (doy-1)/365|366 exactly; floor = y "
               "and strict increase from each day to the next are checked on these binary64 values for every day.  Spec lemmas (all years, lia): "
               "consecutive days advance the weekday by one, Gregorian weekday after the reform, 31 Dec = year length.  mean_sidereal_time: in "
               "[0,1) and within 1e-7 d of the exact rational IAU 1982 value at every 100th day x {0h, 12h, k/1024 d}.  Weekday constancy within "
               "the day: noon, 0.999999 d and the last binary64 instant before midnight for every date of every 20th year.  The thorough tier "
               "additionally compiles Epoch(y,m,d)/get_date and the within-day check on EVERY date and sidereal time on every 8th day.")
CLAUSES = {
    "dow = floor(JDE+1.5) mod 7 = (jdn+1) mod 7, 0 = Sunday (every civil date -4712..6000, at 0h)": "proved [B64, kernel computation over the full domain]",
    "dow constant over the civil day (noon, 0.999999 d, last binary64 instant)": "proved [B64, EVERY finite JDE in [0, 2^51): C16_dow_b64 - dow = floor(JDE + 1.5) mod 7 exactly (j - 0.5, + 2.0 and float % 7 are exact), hence constant over all binary64 instants of a civil day]; also kernel computation for every date of years = 2 mod 20 incl. 1582 (quick) / every date (thorough-only obligation T16_dow_within_day_all)",
    "dow advances by one each day incl. 4->15 Oct 1582": "proved [B64 full domain + spec lemmas jdn_next/weekday_next for all years]",
    "dow equals the proleptic Gregorian weekday after the reform": "proved [B64 + spec]",
    "day of year = jdn - jdn(1 Jan) + 1 in both calendars (get_doy)": "proved [B64, full domain]",
    "doy()/leap()/year() = get_date followed by get_doy/is_leap, for every Epoch object": "proved [B64, symbolic on the generated text]; get_date itself on every date is C01_roundtrip (here: first/last day of every month; every date in the thorough-only obligation T16_all_dates)",
    "31 December is day 365/366 by the leap rule in force (355 in 1582)": "proved [B64 + spec lemmas doy_dec31, year_len_spec]",
    "doy2date inverts get_doy; non-existent days refused": "proved [B64, full domain; d in -1..0, len+1..33, 5..14 Oct 1582]",
    "fractional year: integer part = calendar year, strictly increasing day to day": "proved [B64, full domain: value y + (doy-1)/365|366, floor and comparison of every consecutive pair]; within-day monotonicity only searched",
    "leap()/is_leap follow the leap rule in force": "proved [B64, every year, int and float argument]",
    "MJD = JDE - 2400000.5": "proved [B64, exact at 0h of every civil date]; other instants by correspondence/search",
    "mean sidereal time in [0,1)": "proved [ideal, every real JDE >= 0: C16_sidereal_ideal]; proved [B64, EVERY finite JDE in [0, 2^23]: C16_sidereal_b64 - the result is x % 1 of a finite float x >= 0 (all summands non-negative: jd0 is the preceding 0h), hence the exact fractional part, 0 <= r < 1; the 1.0 that float % 1 returns for tiny negative arguments cannot occur]; also kernel computation at 117 387 instants (every 100th day x 3 fractions; every 8th day in the thorough-only obligation)",
    "mean sidereal time agrees with IAU 1982 to 1e-7 day, rate 1.00273790935 turns/day": "proved [ideal, EVERY real JDE >= 0: C16_sidereal_ideal - the returned value is in [0,1) and congruent mod 1 to the independently transcribed IAU 1982 expression Spec.Sidereal.gmst_iau1982 (exactly; within TOL=1e-10 d after 0h the code returns the 0h value, stated as such), C16_sidereal_rate - [spec, true by definition of the transcribed expression] it advances by exactly 1.00273790935 turns/day within a civil day; tied to the code only through C16_sidereal_ideal]; proved [B64 vs exact rational IAU 1982 value, 1e-7 day] at the 117 387 instants; binary64 rounding for all JDE: unproved (searched)",
    "apparent - mean sidereal time = equation of the equinoxes, under 1.2 s": "proved [ideal: C16_apparent_ideal - apparent = mean + dpsi*3600*cos(eps)/15/86400 for arbitrary nutation dpsi and obliquity eps given as floats or Angles; this restates the code's own formula (pins the units and the /15 and /86400 factors), it is not an independent property; the hypothesis 'mean_sidereal_time returns VFloat s' is satisfiable for every JDE >= 0 by C16_sidereal_ideal]; the size bound 1.2 s: proved [ideal, T = (JDE-2451545)/36525 in [-10.5, 8.5] centuries = years 950..2850: C16_equation_of_equinoxes - for every nutation in longitude |dpsi| <= 17.1996 + 0.01742|T| + 2.25 arcsec and true obliquity = Laskar mean obliquity + deps, |deps| <= 11 arcsec, apparent_sidereal_time(Angle eps, Angle dpsi) - mean_sidereal_time is below 1.2 s (C16_equation_of_equinoxes_bound: interval arithmetic on the obliquity polynomial); these two bounds are exactly what the C08 check proves about pymeeus.Coordinates.nutation_longitude / true_obliquity on the regenerated code (C08_nutation_longitude_main_term + C08_nutation_remainders, C08_true_obliquity_closed) - Coordinates is outside this property's model, so they enter as hypotheses here, not by a Coq import; the fully linked statement (apparent_sidereal_time applied to what the generated true_obliquity / nutation_longitude return, same range) is theorem C08_equation_of_equinoxes of the C08 check, whose model contains Coordinates and Epoch; the range is the largest the worst-case amplitude bound allows (the same bound gives 1.2001 s at T = -11 and 1.2003 s at T = 9)]; outside years 950..2850 and in binary64: unproved (searched; correspondence + oracle over JDE in [0, 5.4e6]); known finding equation-of-equinoxes-exceeds-1.2s-far-epochs (up to ~1.204 s outside years -2000..4000)",
}


def proof_files(tier):
    fs = ["C16_defs.v"] + ["C16_shard_%02d.v" % k for k in range(16)] + ["C16_main.v", "C16_tac.v", "C16_ideal.v", "C16_eqeq.v", "C16_b64.v", "C16_mst_b64.v"]
    if tier == "thorough":
        # extra obligations (not in THEOREMS, which is the same in both tiers): within-day weekday on EVERY
        # civil date, sidereal time on every 8th day; a failure breaks stage P
        fs += ["C16_tdefs.v"] + ["C16_tshard_%02d.v" % k for k in range(16)] + ["C16_thorough.v"]
    return fs + ["C16.v"]


# ------------------------------------------------------------------ correspondence
BOUNDARY_YEARS = [-4712, -4711, -1000, -400, -4, -1, 0, 1, 4, 100, 200, 300, 500, 900, 1000, 1100, 1300, 1400, 1500,
                  1581, 1582, 1583, 1600, 1700, 1800, 1900, 2000, 2012, 2017, 2100, 2400, 5999, 6000]


def gen_date(rng):
    y = rng.choice(BOUNDARY_YEARS) if rng.random() < 0.4 else rng.randint(-4712, 6000)
    m = rng.randint(1, 12)
    r = rng.random()
    if r < 0.35: d = rng.choice([1, 28, R.mlen(y, m)])
    else: d = rng.randint(1, R.mlen(y, m))
    if y == 1582 and m == 10 and 5 <= d <= 14: d = rng.choice([4, 15])
    return y, m, d


def cases(rng, tier):
    n = 260 if tier == "quick" else 2600
    cs = []
    for _ in range(n):
        y, m, d = gen_date(rng)
        f = rng.choice([0.0, 0.25, 0.5, 0.75, 0.999999, rng.random()])
        k = rng.random()
        if k < 0.14: cs.append("Epoch(%d, %d, %r).dow()" % (y, m, d + f))
        elif k < 0.18: cs.append("Epoch(%d, %d, %r).dow(as_string=True)" % (y, m, d + f))
        elif k < 0.30: cs.append("Epoch.get_doy(%d, %d, %r)" % (y, m, rng.choice([d, float(d), d + f])))
        elif k < 0.36: cs.append("Epoch.get_doy(%d, %d, %r)" % (y, m, rng.choice([0, R.mlen(y, m) + 1, 32, 31.5, 0.99, -1])))
        elif k < 0.46: cs.append("Epoch(%d, %d, %r).doy()" % (y, m, d + f))
        elif k < 0.58:
            doy = R.doy(y, m, d)
            cs.append("Epoch.doy2date(%d, %r)" % (y, rng.choice([doy, float(doy), doy + f])))
        elif k < 0.62: cs.append("Epoch.doy2date(%d, %r)" % (y, rng.choice([0, 366, 367, 400, 277, 278, 355, 356, 31, 32, 59, 60, 61])))
        elif k < 0.74: cs.append("Epoch(%d, %d, %r).year()" % (y, m, d + f))
        elif k < 0.79: cs.append("Epoch(%d, %d, %r).leap()" % (y, m, d + f))
        elif k < 0.84: cs.append("Epoch.is_leap(%r)" % rng.choice([y, float(y)]))
        elif k < 0.88: cs.append("Epoch(%d, %d, %r).mjd()" % (y, m, d + f))
        elif k < 0.96: cs.append("Epoch(%d, %d, %r).mean_sidereal_time()" % (y, m, d + f))
        else: cs.append("Epoch(%d, %d, %r).apparent_sidereal_time(%r, %r)" % (
            y, m, d + f, 23.0 + rng.random(), (rng.random() - 0.5) / 100.0))
    for _ in range(40 if tier == "quick" else 400):
        j = rng.choice([rng.uniform(0.0, 5.4e6), float(rng.randint(0, 5400000)), rng.randint(0, 5400000) + 0.5,
                        math.nextafter(rng.randint(1, 5400000) + 0.5, 0.0), math.nextafter(float(rng.randint(1, 5400000)), 0.0)])
        cs.append("Epoch(%r).%s()" % (j, rng.choice(["mean_sidereal_time", "mean_sidereal_time", "dow", "mjd", "year", "doy"])))
    cs += ["Epoch(1987, 4, 10).mean_sidereal_time()", "Epoch(1987, 4, 10, 19, 21, 0.0).mean_sidereal_time()",
           "Epoch(1987, 4, 10).apparent_sidereal_time(23.44357, (-3.788)/3600.0)",
           "Epoch(1987, 4, 10).apparent_sidereal_time(Angle(23.44357), Angle((-3.788)/3600.0))",
           "Epoch(1987, 4, 10).apparent_sidereal_time('23', 0.0)",
           "Epoch(1954, 'June', 30).dow()", "Epoch(2018, 'Feb', 15.99).dow(as_string=True)",
           "Epoch.get_doy(2017, 12, 31.7)", "Epoch.get_doy(-400, 2, 29.9)", "Epoch.get_doy(1582, 10, 5)",
           "Epoch.get_doy(1582, 10, 15)", "Epoch.get_doy(1582, 12, 31)", "Epoch.get_doy(1500, 2, 29)", "Epoch.get_doy(1900, 2, 29)",
           "Epoch.get_doy(2000, 13, 1)", "Epoch.get_doy(2000, 0, 1)",
           "Epoch.doy2date(2017, 365.7)", "Epoch.doy2date(-1004, 60)", "Epoch.doy2date(1, 60)", "Epoch.doy2date(1582, 278)",
           "Epoch.doy2date(1582, 277)", "Epoch.doy2date(1582, 355)", "Epoch.doy2date('2000', 60)",
           "Epoch(1993, 'October', 1).year()", "Epoch(1582, 12, 31).year()", "Epoch(1858, 'NOVEMBER', 17).mjd()",
           "Epoch.is_leap(1900)", "Epoch.is_leap(-1000)", "Epoch.is_leap(1582)", "Epoch.is_leap('2000')", "Epoch.is_leap(1600.0)"]
    return cs


# ------------------------------------------------------------------ search oracle
D73 = 73050
TOL_SID = Fr(1, 10 ** 7)
RATE = Fr(100273790935, 10 ** 11)


def iau82(n, f):
    """exact IAU 1982 GMST in days: 0h UT of the day with Julian Day Number n, plus the day fraction f"""
    T = Fr(2 * n - 4903091, D73)
    sec = Fr(2411054841, 10 ** 5) + Fr(8640184812866, 10 ** 6) * T + Fr(93104, 10 ** 6) * T * T - Fr(62, 10 ** 7) * T ** 3
    return sec / 86400 + RATE * f


def circ(a):
    return abs(a - math.floor(a + Fr(1, 2)))


def rule_year_len(y):
    if y == 1582: return 355
    if y < 1582: return 366 if y % 4 == 0 else 365
    return 366 if (y % 4 == 0 and (y % 100 != 0 or y % 400 == 0)) else 365


REPLAY = "PYTHONPATH=/repo /venv/bin/python -c \"from pymeeus.Epoch import Epoch; print(%s)\""


def scan_years(years, extras, limit=60):
    """every clause about civil dates, on every valid date of the given years"""
    import datetime
    Epoch = load(["Epoch"])["Epoch"].Epoch
    out, n, nontriv = [], 0, 0

    def bad(key, what, inp, expr):
        out.append({"key": key, "what": what, "input": inp, "replay": REPLAY % expr})

    def call(key, expr, f):
        try:
            return f()
        except Exception as ex:
            bad(key + "-raises", "%s raises %r" % (expr, ex), expr, expr)
            return None

    for y in years:
        jan1 = R.jdn(y, 1, 1)
        n += 2
        for yy in (y, float(y)):
            r = call("is-leap", "Epoch.is_leap(%r)" % yy, lambda: Epoch.is_leap(yy))
            if r is not None and bool(r) != R.leap(y):
                bad("is-leap", "Epoch.is_leap(%r) = %r, the rule in force says %r" % (yy, r, R.leap(y)), [yy], "Epoch.is_leap(%r)" % yy)
        prev_year_val = None
        for m in range(1, 13):
            ml = R.mlen(y, m)
            for d in [0, ml + 1] + ([5, 14] if (y, m) == (1582, 10) else []):
                n += 1
                try:
                    r = Epoch.get_doy(y, m, d)
                    bad("doy-not-refused", "Epoch.get_doy(%d,%d,%d) = %r for a day that does not exist" % (y, m, d, r),
                        [y, m, d], "Epoch.get_doy(%d,%d,%d)" % (y, m, d))
                except ValueError:
                    pass
                except Exception as ex:
                    bad("doy-refused-wrong-exception", "Epoch.get_doy(%d,%d,%d) raises %r" % (y, m, d, ex), [y, m, d],
                        "Epoch.get_doy(%d,%d,%d)" % (y, m, d))
            for d in range(1, ml + 1):
                if not R.valid(y, m, d): continue
                nontriv += 1
                jn = R.jdn(y, m, d)
                ex0 = "Epoch(%d,%d,%d)" % (y, m, d)
                e = call("construct", ex0, lambda: Epoch(y, m, d))
                if e is None: continue
                # --- weekday
                n += 1
                w = call("dow", ex0 + ".dow()", lambda: e.dow())
                if w is not None and (w != (jn + 1) % 7 or not isinstance(w, int)):
                    bad("dow", "%s.dow() = %r, floor(JDE+1.5) mod 7 = %d (JDE %r)" % (ex0, w, (jn + 1) % 7, e.jde()), [y, m, d], ex0 + ".dow()")
                if w is not None and (y, m, d) >= (1582, 10, 15) and y <= 9999:
                    g = datetime.date(y, m, d).isoweekday() % 7
                    if w != g:
                        bad("dow-gregorian", "%s.dow() = %r, proleptic Gregorian weekday is %d" % (ex0, w, g), [y, m, d], ex0 + ".dow()")
                if extras or d in (1, ml):
                    for j in (jn - 0.5 + 0.25, jn - 0.5 + 0.5, jn - 0.5 + 0.999999, math.nextafter(jn + 0.5, 0.0)):
                        n += 1
                        r2 = call("dow", "Epoch(%r).dow()" % j, lambda: (lambda t: (t.jde(), t.dow()))(Epoch(j)))
                        if r2 is None: continue
                        jj, w2 = r2      # the constructor may round the last binary64 instant up to midnight: use the stored JDE
                        want_w = math.floor(Fr(jj) + Fr(3, 2)) % 7
                        if w2 != want_w or (jn - 0.5 <= jj < jn + 0.5 and w2 != (jn + 1) % 7):
                            bad("dow-within-day", "Epoch(%r).dow() = %r but floor(JDE + 1.5) mod 7 = %d (stored JDE %r, civil day %d-%d-%d has weekday %d)"
                                % (j, w2, want_w, jj, y, m, d, (jn + 1) % 7), [j], "Epoch(%r).dow()" % j)
                # --- day of year
                want = jn - jan1 + 1
                n += 3
                k = call("get-doy", "Epoch.get_doy(%d,%d,%d)" % (y, m, d), lambda: Epoch.get_doy(y, m, d))
                if k is not None and k != want:
                    bad("get-doy", "Epoch.get_doy(%d,%d,%d) = %r, JDE difference to 1 January + 1 = %d" % (y, m, d, k, want),
                        [y, m, d], "Epoch.get_doy(%d,%d,%d)" % (y, m, d))
                k2 = call("doy", ex0 + ".doy()", lambda: e.doy())
                if k2 is not None and k2 != want:
                    bad("doy", "%s.doy() = %r, JDE difference to 1 January + 1 = %d" % (ex0, k2, want), [y, m, d], ex0 + ".doy()")
                if (m, d) == (12, 31) and k is not None and k != rule_year_len(y):
                    bad("doy-dec31", "Epoch.get_doy(%d,12,31) = %r, the calendar's leap rule gives %d" % (y, k, rule_year_len(y)),
                        [y, 12, 31], "Epoch.get_doy(%d,12,31)" % y)
                for kk in ((want, float(want)) + ((want + 0.5,) if extras or d in (1, ml) else ())):
                    exd = "Epoch.doy2date(%d,%r)" % (y, kk)
                    t = call("doy2date", exd, lambda: Epoch.doy2date(y, kk))
                    n += 1
                    if t is not None and tuple(t) != (y, m, d + (kk - want)):
                        bad("doy2date", "%s = %r, expected (%d, %d, %r)" % (exd, t, y, m, d + (kk - want)), [y, kk], exd)
                if extras or d in (1, ml):
                    n += 1
                    exd = "Epoch.get_doy(%d,%d,%r)" % (y, m, d + 0.5)
                    k3 = call("get-doy", exd, lambda: Epoch.get_doy(y, m, d + 0.5))
                    if k3 is not None and k3 != want + 0.5:
                        bad("get-doy", "%s = %r, expected %r" % (exd, k3, want + 0.5), [y, m, d + 0.5], exd)
                # --- fractional year
                n += 1
                v = call("year", ex0 + ".year()", lambda: e.year())
                if v is not None:
                    if math.floor(v) != y:
                        bad("year-integer-part", "%s.year() = %r, integer part is not %d" % (ex0, v, y), [y, m, d], ex0 + ".year()")
                    if prev_year_val is not None and not (prev_year_val[0] < v):
                        bad("year-not-increasing", "%s.year() = %r is not above %s.year() = %r" % (ex0, v, prev_year_val[1], prev_year_val[0]),
                            [y, m, d], ex0 + ".year(), " + prev_year_val[1] + ".year()")
                    prev_year_val = (v, ex0)
                    if extras or d in (1, ml):
                        n += 1
                        exh = "Epoch(%d,%d,%r)" % (y, m, d + 0.5)
                        vh = call("year", exh + ".year()", lambda: Epoch(y, m, d + 0.5).year())
                        if vh is not None:
                            if not (v < vh) or math.floor(vh) != y:
                                bad("year-not-increasing", "%s.year() = %r is not above %s.year() = %r (or integer part wrong)" % (exh, vh, ex0, v),
                                    [y, m, d + 0.5], exh + ".year(), " + ex0 + ".year()")
                            prev_year_val = (vh, exh)
                # --- leap, mjd
                n += 2
                lp = call("leap", ex0 + ".leap()", lambda: e.leap())
                if lp is not None and bool(lp) != R.leap(y):
                    bad("leap", "%s.leap() = %r, the rule in force says %r" % (ex0, lp, R.leap(y)), [y, m, d], ex0 + ".leap()")
                mj = call("mjd", ex0 + ".mjd()", lambda: e.mjd())
                if mj is not None and mj != jn - 2400001:
                    bad("mjd", "%s.mjd() = %r, JDE - 2400000.5 = %r" % (ex0, mj, jn - 2400001), [y, m, d], ex0 + ".mjd()")
                if len(out) > limit: return out, n, nontriv
        # 1 January of the next year continues the fractional year
        if y < 6000 and prev_year_val is not None:
            n += 1
            exn = "Epoch(%d,1,1)" % (y + 1)
            vn = call("year", exn + ".year()", lambda: Epoch(y + 1, 1, 1).year())
            if vn is not None and not (prev_year_val[0] < vn):
                bad("year-not-increasing", "%s.year() = %r is not above %s.year() = %r" % (exn, vn, prev_year_val[1], prev_year_val[0]),
                    [y + 1, 1, 1], exn + ".year(), " + prev_year_val[1] + ".year()")
    return out, n, nontriv


def _scan_chunk(args):
    return scan_years(*args)


def sidereal_points(rng, n):
    pts = []
    for _ in range(n):
        r = rng.random()
        if r < 0.4: j = rng.uniform(0.0, 5.4e6)
        elif r < 0.5:
            # log-uniform offsets of 0.03 ms .. 90 s before/after 0h UT (and 12h): a shortcut 'this is 0h' that is wider
            # than the tolerance shows only at such offsets
            j = rng.randint(1, 5399998) + rng.choice([0.5, 0.5, 0.5, 0.0]) + rng.choice([1.0, 1.0, -1.0]) * 10.0 ** rng.uniform(-9.5, -3.0)
        elif r < 0.6: j = float(rng.randint(0, 5400000))
        elif r < 0.7: j = rng.randint(0, 5399999) + 0.5
        elif r < 0.8: j = math.nextafter(rng.randint(1, 5399999) + 0.5, rng.choice([0.0, 1e9]))
        elif r < 0.9: j = math.nextafter(float(rng.randint(1, 5399999)), rng.choice([0.0, 1e9]))
        else: j = rng.randint(0, 5399999) + rng.choice([0.25, 0.75, 0.999999, 1e-6, 0.5 + 1e-9])
        pts.append(j)
    return pts + [0.0, 0.5, 5.4e6, 2451545.0, 2446895.5, 2446896.30625]


def scan_sidereal(rng, npts):
    mods = load(["Epoch", "Coordinates"])
    Epoch = mods["Epoch"].Epoch
    C = mods["Coordinates"]
    out, n = [], 0

    def bad(key, what, inp, expr):
        out.append({"key": key, "what": what, "input": inp, "replay": REPLAY % expr})

    for j in sidereal_points(rng, npts):
        ex = "Epoch(%r).mean_sidereal_time()" % j
        n += 1
        try:
            x = Epoch(j).mean_sidereal_time()
        except Exception as e:
            bad("sidereal-raises", "%s raises %r" % (ex, e), [j], ex); continue
        if not (0.0 <= x < 1.0):
            bad("sidereal-range", "%s = %r is not in [0, 1)" % (ex, x), [j], ex); continue
        jq = Fr(j)
        day = math.floor(jq + Fr(1, 2))            # Julian Day Number of the civil day containing j
        f = jq - (day - Fr(1, 2))
        err = circ(Fr(x) - iau82(day, f))
        if err > TOL_SID:
            bad("sidereal-iau1982", "%s = %r differs from the IAU 1982 expression %.12f by %.3e day (mod 1) > 1e-7"
                % (ex, x, float(iau82(day, f) % 1), float(err)), [j], ex)
        # rate: 1.00273790935 turns per day
        for dt in (0.25, 1.0):
            if j + dt > 5.4e6: continue
            n += 1
            try:
                x2 = Epoch(j + dt).mean_sidereal_time()
            except Exception as e:
                bad("sidereal-raises", "Epoch(%r).mean_sidereal_time() raises %r" % (j + dt, e), [j + dt],
                    "Epoch(%r).mean_sidereal_time()" % (j + dt)); continue
            adv = circ(Fr(x2) - Fr(x) - RATE * (Fr(j + dt) - jq))
            if adv > TOL_SID:
                bad("sidereal-rate", "mean sidereal time advances by %r from JDE %r to %r: not 1.00273790935 turns/day (off by %.3e)"
                    % (x2 - x, j, j + dt, float(adv)), [j, j + dt],
                    "Epoch(%r).mean_sidereal_time(), Epoch(%r).mean_sidereal_time()" % (j, j + dt))
        # apparent sidereal time
        n += 1
        try:
            e = Epoch(j)
            eps = C.true_obliquity(e)
            dpsi = C.nutation_longitude(e)
            a = e.apparent_sidereal_time(eps, dpsi)
            a2 = e.apparent_sidereal_time(float(eps), float(dpsi))
        except Exception as e2:
            bad("apparent-raises", "Epoch(%r).apparent_sidereal_time(true_obliquity, nutation_longitude) raises %r" % (j, e2), [j],
                "Epoch(%r).apparent_sidereal_time(23.44, 0.001)" % j); continue
        eqeq = float(dpsi) * 3600.0 * math.cos(math.radians(float(eps))) / 15.0      # seconds of time
        exa = ("(lambda e: e.apparent_sidereal_time(C.true_obliquity(e), C.nutation_longitude(e)) - e.mean_sidereal_time())(Epoch(%r))" % j)
        rp = ("PYTHONPATH=/repo /venv/bin/python -c \"from pymeeus.Epoch import Epoch; import pymeeus.Coordinates as C; print(%s)\"" % exa)
        if abs((a - x) * 86400.0 - eqeq) > 1e-6 or a != a2:
            out.append({"key": "apparent-equation-of-equinoxes", "what":
                        "apparent - mean sidereal time at JDE %r = %r s, equation of the equinoxes dpsi*cos(eps)/15 = %r s" % (j, (a - x) * 86400.0, eqeq),
                        "input": [j], "replay": rp})
        # the bound is checked over the whole range [0, 5.4e6]; outside years -2000..4000 the 1980 nutation
        # series (secular amplitude terms) pushes it slightly above 1.2 s: recorded known finding, as long as <= 1.25 s
        exc = abs(a - x) * 86400.0
        if exc >= 1.2:
            far = not (990558.0 <= j <= 3182030.0)
            key = "equation-of-equinoxes-exceeds-1.2s-far-epochs" if (far and exc <= 1.25) else "apparent-minus-mean-bound"
            out.append({"key": key, "what": "apparent - mean sidereal time at JDE %r = %r s, not under 1.2 s" % (j, (a - x) * 86400.0),
                        "input": [j], "replay": rp})
        if len(out) > 60: break
    return out, n


def search(rng, tier, deep):
    full = deep or tier == "thorough"
    if full:
        years = list(range(-4712, 6001))
    else:
        years = sorted(set([rng.randint(-4712, 6000) for _ in range(12)] +
                           [-4712, -4711, -1001, -1000, -4, -1, 0, 1, 4, 100, 200, 300, 500, 900, 1000, 1100, 1300, 1400, 1500,
                            1581, 1582, 1583, 1600, 1700, 1900, 2000, 2023, 2100, 5999, 6000]))
    findings, n, nontriv = [], 0, 0
    if full:
        from concurrent.futures import ProcessPoolExecutor
        chunks = [(years[i:i + 120], False, 20) for i in range(0, len(years), 120)]
        # boundary years get the extra (fractional-day) clauses on every date
        chunks.append(([-4712, -1, 0, 1, 4, 100, 1000, 1500, 1581, 1582, 1583, 1600, 1900, 2000, 6000], True, 20))
        with ProcessPoolExecutor(max_workers=8) as ex:
            for out, k, nt in ex.map(_scan_chunk, chunks):
                findings += out; n += k; nontriv += nt
    else:
        out, n, nontriv = scan_years(years, True)
        findings += out
    out, k = scan_sidereal(rng, 1500 if not full else 20000)
    findings += out; n += k
    # one finding per key is enough for the report, keep the first of each
    seen, uniq = set(), []
    for f in findings:
        if f["key"] not in seen:
            seen.add(f["key"]); uniq.append(f)
    stats = {"evaluations": n, "distinct_nontrivial": nontriv + k,
             "rule": ("every clause of the property text on every valid civil date of %s (weekday vs day count and vs the proleptic "
                      "Gregorian weekday, within-day constancy, day of year both ways vs the JDE difference, 31 Dec vs the leap rule, "
                      "fractional year floor/monotone, leap, MJD); mean/apparent sidereal time at %d JDE in [0, 5.4e6] (uniform, log-uniform offsets 3e-10 .. 1e-3 day from 0h/12h UT, integers, "
                      "half-integers, +-1 ulp) vs the exact rational IAU 1982 value mod 1, rate over 0.25 d and 1 d, equation of the equinoxes")
                     % ("ALL years -4712..6000" if full else "%d sampled/boundary years" % len(years), 1500 if not full else 20000),
             "samples": [{"input": [1582, 12, 31], "checked": "dow == (jdn+1)%7 == Gregorian weekday; get_doy == 355; doy2date(1582,355) == (1582,12,31); year() in [1582,1583)"},
                         {"input": [2446895.5], "checked": "mean_sidereal_time in [0,1), within 1e-7 d of IAU 1982 (exact rational), rate, apparent-mean = dpsi cos(eps)/15 < 1.2 s"}],
             "exhaustive_search": bool(full), "distinct_keys": sorted(seen)}
    return uniq, stats
