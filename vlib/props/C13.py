"""C13 — planetary event finders return real events, in order, none skipped."""
import json, math, os
from vlib import common as K
from vlib.impl import load

ID = "C13"
MODULES = K.mods("base", "Angle", "Epoch", "Interpolation", "Coordinates", "Earth", "Sun", "Mercury", "Venus",
                 "Mars", "Jupiter", "Saturn", "Uranus", "Neptune", "Pluto", "Minor")

# periodic-term finders (Meeus ch. 36): planet -> names; elongation finders return (Epoch, Angle)
PERIODIC = {
    "Mercury": ["inferior_conjunction", "superior_conjunction", "western_elongation", "eastern_elongation",
                "station_longitude_1", "station_longitude_2"],
    "Venus": ["inferior_conjunction", "superior_conjunction", "western_elongation", "eastern_elongation",
              "station_longitude_1", "station_longitude_2"],
    "Mars": ["conjunction", "opposition", "station_longitude_1", "station_longitude_2"],
    "Jupiter": ["conjunction", "opposition", "station_longitude_1", "station_longitude_2"],
    "Saturn": ["conjunction", "opposition", "station_longitude_1", "station_longitude_2"],
    "Uranus": ["conjunction", "opposition"],
    "Neptune": ["conjunction", "opposition"],
}
ORBITAL = ["Mercury", "Venus", "Earth", "Mars", "Jupiter", "Saturn", "Uranus"]   # perihelion_aphelion / passage_nodes
# synodic periods B (days) as the finders use them, sidereal periods P (days)
SYN = {"Mercury": 115.8774771, "Venus": 583.921361, "Mars": 779.936104, "Jupiter": 398.884046,
       "Saturn": 378.091904, "Uranus": 369.656035, "Neptune": 367.486703}
SID = {"Mercury": 87.9693, "Venus": 224.7008, "Earth": 365.2596, "Mars": 686.9957, "Jupiter": 4332.897,
       "Saturn": 10764.216, "Uranus": 30694.8}
# "within that period's natural variation": relative tolerance on the spacing of consecutive events.
# Calibrated on the unchanged tree: observed extremes of (gap / period) over 12 eras x 8 periods x 20 queries per
# period spread over -2000..4000 (thorough sweep, 3835 distinct events):
#   Mercury 0.902..1.137, Venus 0.984..1.014, Mars 0.979..1.039, Jupiter 0.990..1.012, Saturn 0.995..1.006,
#   Uranus 0.999..1.0014, Neptune 0.9997..1.0003; perihelion/aphelion/nodes: Mercury 1.0000, Venus 0.9988..1.0013,
#   Earth 0.9937..1.0081, Mars 0.9996..1.0004, Jupiter 0.9972..1.0037, Saturn 0.9909..1.0087, Uranus 0.9959..1.0044.
# Tolerance = about 1.5-2 x the observed extreme deviation.
SPACING_TOL = {"Mercury": 0.20, "Venus": 0.03, "Mars": 0.07, "Jupiter": 0.025, "Saturn": 0.012, "Uranus": 0.004,
               "Neptune": 0.002}
ORB_SPACING_TOL = {"Mercury": 0.001, "Venus": 0.003, "Earth": 0.015, "Mars": 0.0015, "Jupiter": 0.008, "Saturn": 0.02,
                   "Uranus": 0.01}
# accuracy of the series the property names: 1 day Mercury-Mars, 2 days beyond
ACC = {"Mercury": 1.0, "Venus": 1.0, "Earth": 1.0, "Mars": 1.0, "Jupiter": 2.0, "Saturn": 2.0, "Uranus": 2.0,
       "Neptune": 2.0}

# Known findings (known_findings.json, property C13) are reported under their key only inside the envelope
# measured on the unchanged tree; beyond it the key gets the suffix -gross (= a new violation).
#   event offset (days) of the returned instant against the library's VSOP87, unchanged tree, 60 random queries per
#   finder over -2000..4000 (smallest window in which the defining sign change is seen, maximum over the sample):
#   Jupiter.passage_nodes 15..20, Saturn.passage_nodes 60..80, Uranus.passage_nodes 400..500,
#   Uranus.perihelion_aphelion 6..8 (Jupiter/Saturn perihelion_aphelion: <= 2, i.e. fine)
EVENT_ENV = {"Jupiter.passage_nodes": 30.0, "Saturn.passage_nodes": 100.0, "Uranus.passage_nodes": 600.0,
             "Uranus.perihelion_aphelion": 10.0}
#   backward drift (days) of the answer for one and the same node passage as the query advances (passage_nodes evaluates
#   the mean elements at the query).  The clause "never moves backwards" is applied literally (> 1e-6 d) to every finder;
#   the periodic-term finders and perihelion_aphelion meet it (functions of the index only).  passage_nodes, measured on the
#   unchanged tree (quick seeds 0..5, thorough seeds 0..2, plus a 6-era scan of every planet), maximum per planet:
#   Mercury 0.00030, Venus 0.0022, Earth 0.020, Mars 0.040, Jupiter 0.83, Saturn 10.4, Uranus 69; envelope = 1.5 x maximum
BACK_ENV = {"Mercury.passage_nodes": 0.0005, "Venus.passage_nodes": 0.0035, "Earth.passage_nodes": 0.03,
            "Mars.passage_nodes": 0.06, "Jupiter.passage_nodes": 1.25, "Saturn.passage_nodes": 16.0, "Uranus.passage_nodes": 104.0}
# share of the orbital-finder queries of one search run that may raise (known finding) before it is "gross":
# unchanged tree, the sweeps' own sampling (both ends of the range + random eras), seeds 0..5:
#   quick (300 queries/planet): Jupiter 13.3..21.7 %, Saturn 15.7..18.3 %; thorough (3936): Jupiter 8.7..11.2 %, Saturn 8.2..9.5 %
ELON_TOL = 0.05
RAISE_RATE_MAX = {"Jupiter": 0.35, "Saturn": 0.30}
RAISE_RATE_MIN_QUERIES = 40
RAISE_ENV = {"Jupiter": "Invalid interval: Probably no root exists", "Saturn": "Invalid interval: Probably no root exists"}

# passage_nodes = nearest perihelion (within P/2 of the query) + up to ~0.53 P to the node: Mercury's descending node
# passage is up to 1.032 P from the query on the unchanged tree (known finding inside 1.06 P)
FAR_ENV = {"Mercury.passage_nodes": 1.06}

REQUIRED = (["Epoch.year", "Epoch.get_doy", "Angle.__init__", "Angle.to_positive", "Angle.rad", "Epoch.__init__"]
            + ["%s.%s" % (p, f) for p, fs in PERIODIC.items() for f in fs]
            + ["%s.perihelion_aphelion" % p for p in ORBITAL] + ["%s.passage_nodes" % p for p in ORBITAL])

_FT = json.load(open(os.path.join(K.VERIF, "coq", "proofs", "C13", "finders.json")))
FINDER_THMS = ["C13_" + k.replace(".", "_") for k in sorted(_FT)]
PERI_THMS = (["C13_%s_perihelion_aphelion" % p for p in ORBITAL] + ["C13_Earth_perihelion_correction", "C13_orbit_alternate",
             "C13_orbit_spacing", "C13_orbit_near", "C13_orbit_index"] + ["C13_%s_passage_nodes" % p for p in ORBITAL])
THEOREMS = FINDER_THMS + ["C13_order", "C13_spacing", "C13_index", "C13_near", "C13_timing1", "C13_timing2"] + PERI_THMS
PROOF_TIMEOUT = {"quick": 2000, "thorough": 3000}
EXHAUSTIVE = False
MANIFEST = {
    "category": "proof",
    "text": ("T6: for each of the 28 periodic-term finders (conjunctions, oppositions, elongations, stations of "
             "Mercury..Neptune) the regenerated model, read in real arithmetic with Epoch.year and the final Epoch(x) "
             "abstracted, is proved equal to the closed form A + kB + sum of periodic terms with every coefficient "
             "written out, k = round((365.2425 y + 1721060 - A)/B); ValueError outside -2000..4000, TypeError for "
             "non-Epoch scalars; amplitude bound C by interval arithmetic; the hand-written spec Finder.v gives "
             "monotonicity in the query, spacing B+-2C, no skipped index, distance to the query.  Perihelion/aphelion finders "
             "(7 planets): closed form with the index rules, the mean-instant quadratic and the interpolation window (VSOP87 "
             "positions and Interpolation.minmax abstracted), Spec/OrbitFinder.v gives alternation, spacing and distance to "
             "the query; in the thorough tier the Epoch(x) hypothesis of all 35 closed forms is discharged with property C02's "
             "constructor theorem (T13_*_exact); passage_nodes = passage_nodes_elliptic on the mean elements and the perihelion passage (C11 has its closed "
             "form).  That the instant is the VSOP87 event, node-passage order/accuracy, Epoch.year monotonicity and binary64 rounding "
             "are searched on the implementation."),
    "technique": "symbolic evaluation of the generated model in the ideal instance (pyrun, call-by-value) + interval "
                 "arithmetic amplitude bounds + spec theorems by lra/lia + bit-exact correspondence + search oracle "
                 "against the library's own VSOP87 positions",
    "design_ref": "8/C13",
}
EXPLANATION = ("Each of the 28 Meeus ch.36 finders of the model regenerated from /repo is symbolically evaluated in the "
               "real-number instance (Epoch.year, Epoch(x) abstracted by hypotheses; Angle()/to_positive() replaced by "
               "proved whole-turn reduction lemmas) and shown equal to a closed form listing every coefficient; the "
               "correction's amplitude is bounded over -41<=T<=21 by Coq-Interval; Spec/Finder.v derives order, spacing "
               "B+-2C, no skipped index and distance to the query for all real query years.  The search oracle checks "
               "all 42 finders x variants against the library's own VSOP87 positions.")
CLAUSES = {
    "periodic-term finders: result = Epoch(A + kB + corr), k = round((365.2425 y + 1721060 - A)/B), every coefficient (28 finders)":
        "proved [ideal; Epoch.year = y and Epoch(x) as hypotheses]",
    "ValueError outside -2000..4000 (28 finders)": "proved [ideal, given Epoch.year = y]",
    "TypeError for a non-Epoch argument (None/bool/int/float/str)": "proved [ideal]; other types searched",
    "result never moves backwards as the query YEAR advances; distinct results >= B-2C apart": "proved [ideal + spec, all real years in -2000..4000]",
    "never moves backwards, literally (> 1e-6 d) on the implementation": "searched for every finder; met by the periodic-term finders and perihelion_aphelion; passage_nodes drifts backwards for one and the same node passage (known findings moves-backwards:<Planet>.passage_nodes with envelopes BACK_ENV)",
    "consecutive results one synodic period apart within +-2C (C by interval arithmetic from the proved coefficients)": "proved [ideal + spec]",
    "no event skipped or repeated (index non-decreasing, onto, every intermediate index taken)": "proved [spec, all reals]",
    "result within B/2 + D + |c0| + C of a query within D of 365.2425 y + 1721060": "proved [spec]; D <= 20 for y = Epoch.year searched",
    "Epoch.year non-decreasing in the JDE (so monotone in the query EPOCH)": "unproved (searched): C16's clause; dense scan incl. Julian century leap days",
    "Epoch(x) stores x (JDE -> date -> JDE round trip)": "proved in the thorough tier [ideal]: property C02's Epoch_ctor_exact_ideal (all reals -0.5 <= x < 5399999.5) is imported and every finder theorem is re-proved without the Epoch(x) hypothesis (T13_<Planet>_<finder>_exact for the 28 periodic-term finders, T13_<Planet>_perihelion_aphelion_exact for 7 planets; the instants handed to Epoch() are shown to lie in that range for years -2000..4000); quick tier: hypothesis Epoch_of.  Remaining hypotheses: the value of Epoch.year (and for perihelion/aphelion the VSOP87 positions, Interpolation.minmax and its in-window result)",
    "the returned instant IS the event per the library's VSOP87 (longitude difference 0/180, max elongation = reported angle, stationary longitude, extremal radius, zero latitude)": "unproved (searched): two 1000-term series; oracle with the property's tolerances (1 d Mercury-Mars incl. perihelion/aphelion, 2 d beyond); reported elongation within 0.05 deg of the geometric elongation = what one day of timing error amounts to for Mercury (0.02-0.06 deg; Venus 0.004 deg is below the aberration/light-time floor of the comparison)",
    "perihelion_aphelion (7 planets): result = Epoch(minmax of the 3-point interpolation of R at m-h, m, m+h), m = J0 + k(P - k c) [+ Earth's correction sum], k = round(a(y-y0)) (perihelion) / round(a(y-y0)+1/2)-1/2 (aphelion), every constant; TypeError for a non-Epoch scalar":
        "proved [ideal; Epoch.year, Epoch(x), <Planet>.geometric_heliocentric_position (VSOP87), Interpolation() and minmax() (assumed not to raise) as hypotheses]",
    "perihelion/aphelion: chosen index within 1/2 of a(y-y0) => result within (P+d)/2 + h of the query's mean instant; successive events P +- (d+2h) apart; perihelia and aphelia alternate (2h + d < P/2 proved per planet)":
        "proved [spec OrbitFinder + per-planet numbers; hypothesis: the interpolation's extremum lies inside its window (C12's clause)]; on the implementation: searched",
    "perihelion/aphelion instant is the extremum of the VSOP87 radius vector; known findings (Jupiter/Saturn raise, Uranus 6-8 d off)": "unproved (searched): depends on the VSOP87 values, which the closed form leaves abstract - no known finding became provable as a refutation",
    "passage_nodes (7 planets) = Coordinates.passage_nodes_elliptic(arg, e, a, T_perihelion, ascending) for the mean elements at the query; TypeError for a non-Epoch scalar":
        "proved [ideal; orbital_elements_mean_equinox, perihelion_aphelion and passage_nodes_elliptic values as hypotheses]; the closed form of passage_nodes_elliptic (v, E, M, t = T + M/n, r) is C11's theorem C11_nodes_elliptic about the same term (not repeated)",
    "passage_nodes: order, spacing, latitude zero at the returned instant (known findings Jupiter/Saturn/Uranus, Mercury distance to the query)": "unproved (searched): depends on the mean elements and VSOP87 values",
    "binary64 rounding of the finders": "unproved: bit-exact correspondence model vs implementation on sampled queries",
}


def proof_files(tier):
    quick = (["C13_angle.v", "C13_tac.v", "C13_defs.v"]
             + ["C13_f_%s.v" % k.replace(".", "_") for k in sorted(_FT)]
             + ["C13_main.v"] + ["C13_s_%s.v" % p for p in PERIODIC]
             + ["C13_tac2.v", "C13_pdefs.v"] + ["C13_p_%s.v" % p for p in ORBITAL] + ["C13_s_peri.v", "C13_nodes.v", "C13_s_nodes.v"])
    if tier == "quick":
        return quick + ["C13.v"]
    # thorough: the same finder theorems with Epoch(x) = the Epoch holding x (property C02's Epoch_ctor_exact_ideal, 5-6 min
    # + 16 shards per build directory) instead of a hypothesis: T13_*_exact obligations, not listed in THEOREMS
    c02 = ["../C02/C02_ctor_spec.v"] + ["../C02/C02_ctor_rt_%02d.v" % k for k in range(16)] + ["../C02/C02_ctor_ideal.v"]
    exact = (["C13_x_defs.v", "C13_xp_defs.v"] + ["C13_x_%s.v" % k.replace(".", "_") for k in sorted(_FT)]
             + ["C13_xp_%s.v" % p for p in ORBITAL] + ["C13_sx_%s.v" % p for p in list(PERIODIC) + ["Earth"]])
    return quick + c02 + exact + ["C13.v"]


# ---------------------------------------------------------------------------------------------
# correspondence

def _rand_epoch(rng):
    r = rng.random()
    if r < 0.15:
        y = rng.choice([-2000, -1999, -1000, -1, 0, 1, 100, 1500, 1582, 1583, 1900, 2000, 2024, 3999, 4000])
        return "Epoch(%d, %d, %d)" % (y, rng.randint(1, 12), rng.randint(1, 28))
    if r < 0.25:
        return "Epoch(%r)" % round(rng.uniform(990558.0, 3182395.0), rng.choice([0, 1, 3, 6]))
    return "Epoch(%d, %d, %r)" % (rng.randint(-2000, 4000), rng.randint(1, 12), round(rng.uniform(1, 28.9), 2))


def cases(rng, tier):
    n = 4 if tier == "quick" else 40
    cs = []
    for p, fs in PERIODIC.items():
        for f in fs:
            for _ in range(n):
                e = _rand_epoch(rng)
                if f.endswith("elongation"):
                    cs.append("%s.%s(%s)[0].jde()" % (p, f, e))
                    cs.append("float(%s.%s(%s)[1])" % (p, f, e))
                else:
                    cs.append("%s.%s(%s).jde()" % (p, f, e))
            cs.append("%s.%s(Epoch(-2001, 6, 1))" % (p, f))
            cs.append("%s.%s(Epoch(4001, 1, 2))" % (p, f))
            cs.append("%s.%s(%s)" % (p, f, rng.choice(["2451545.0", "None", "'2000'", "2000"])))
    for y in (-2000, -1999, -500, 100, 1500, 1582, 1900, 2000, 4000):
        for m, d in ((1, 1), (2, 29 if (y % 4 == 0 and (y < 1582 or y % 100 != 0 or y % 400 == 0)) else 28), (12, 31)):
            cs.append("Epoch(%d, %d, %d).year()" % (y, m, d))
    for _ in range(20 if tier == "quick" else 200):
        cs.append("%s.year()" % _rand_epoch(rng))
    # orbital finders: VSOP87 + interpolation (expensive in the model): a few
    orb = [("Venus", "Epoch(1978, 10, 15.0)")]
    if tier != "quick":
        orb += [("Earth", "Epoch(1989, 11, 20.0)"), ("Mars", "Epoch(2019, 2, 23.0)"), ("Mercury", "Epoch(2000, 3, 1.0)"), ("Jupiter", "Epoch(2019, 2, 23.0)"), ("Saturn", "Epoch(1944, 1, 1.0)"),
                ("Uranus", "Epoch(1880, 1, 1.0)")]
    for p, e in orb:
        cs.append("%s.perihelion_aphelion(%s).jde()" % (p, e))
        cs.append("%s.perihelion_aphelion(%s, perihelion=False).jde()" % (p, e))
        cs.append("%s.passage_nodes(%s)[0].jde()" % (p, e))
    return cs


# ---------------------------------------------------------------------------------------------
# search oracle

def norm180(x):
    x = math.fmod(x, 360.0)
    if x > 180.0: x -= 360.0
    if x <= -180.0: x += 360.0
    return x


class Sky:
    """the library's own VSOP87 positions (geometric, no light-time: minutes, far below the tolerances)"""
    def __init__(self, mods):
        self.m = mods
        self.Epoch = mods["Epoch"].Epoch
        self.n = 0

    def helio(self, planet, jde):
        cls = getattr(self.m[planet], planet)
        l, b, r = cls.geometric_heliocentric_position(self.Epoch(jde))
        self.n += 1
        return float(l), float(b), float(r)

    def geo(self, planet, jde):
        """geocentric ecliptic longitude of planet and of the Sun, elongation (degrees), distance"""
        l, b, r = self.helio(planet, jde)
        l0, b0, r0 = self.helio("Earth", jde)
        rl, rb, rl0, rb0 = map(math.radians, (l, b, l0, b0))
        x = r * math.cos(rb) * math.cos(rl) - r0 * math.cos(rb0) * math.cos(rl0)
        y = r * math.cos(rb) * math.sin(rl) - r0 * math.cos(rb0) * math.sin(rl0)
        z = r * math.sin(rb) - r0 * math.sin(rb0)
        lam = math.degrees(math.atan2(y, x))
        sx, sy, sz = (-r0 * math.cos(rb0) * math.cos(rl0), -r0 * math.cos(rb0) * math.sin(rl0), -r0 * math.sin(rb0))
        d = math.sqrt(x * x + y * y + z * z)
        cosel = (x * sx + y * sy + z * sz) / (d * r0)
        el = math.degrees(math.acos(max(-1.0, min(1.0, cosel))))
        return lam, norm180(l0 + 180.0), el

    def dlon(self, planet, jde, target):
        """heliocentric longitude of the planet minus Earth's minus target, in (-180, 180]"""
        l, _, _ = self.helio(planet, jde)
        l0, _, _ = self.helio("Earth", jde)
        return norm180(l - l0 - target)


def check_event(sky, planet, fname, variant, jde, extra, tol):
    """Does the event occur within +-tol days of jde according to the library's positions?
    Returns None or a one-line description of what is wrong."""
    h = 0.02
    if fname in ("inferior_conjunction", "opposition", "superior_conjunction", "conjunction"):
        target = 0.0 if fname in ("inferior_conjunction", "opposition") else 180.0
        a, b = sky.dlon(planet, jde - tol, target), sky.dlon(planet, jde + tol, target)
        if abs(a) > 60 or abs(b) > 60 or a * b > 0:
            return ("heliocentric longitude difference planet-Earth minus %g deg is %.3f at -%gd and %.3f at +%gd: no crossing"
                    % (target, a, tol, b, tol))
        return None
    if fname in ("western_elongation", "eastern_elongation"):
        e0 = sky.geo(planet, jde)
        el_l, el_l2 = sky.geo(planet, jde - tol)[2], sky.geo(planet, jde - tol + h)[2]
        el_r, el_r2 = sky.geo(planet, jde + tol)[2], sky.geo(planet, jde + tol - h)[2]
        if not (el_l2 > el_l and el_r2 > el_r):
            return "elongation is not maximal within +-%gd (slopes %.5f, %.5f deg/day at the window edges)" % (
                tol, (el_l2 - el_l) / h, (el_r - el_r2) / h)
        side = norm180(e0[0] - e0[1])
        if (fname == "eastern_elongation") != (side > 0):
            return "planet is %s of the Sun (longitude difference %.3f)" % ("east" if side > 0 else "west", side)
        # "equal to the reported angle ... within the accuracy of the series (1 day)": one day of timing error changes
        # the elongation by 0.02..0.06 deg for Mercury (0.003..0.004 for Venus, below the ~0.006 deg that aberration and
        # light-time, ignored by this geometric comparison, contribute); observed |reported - theory| on the unchanged
        # tree: Mercury <= 0.022, Venus <= 0.011.  ELON_TOL = the 1-day equivalent for Mercury.
        if abs(e0[2] - extra) > ELON_TOL:
            return "reported elongation %.4f, position theory gives %.4f" % (extra, e0[2])
        return None
    if fname in ("station_longitude_1", "station_longitude_2"):
        def rate(t):
            return norm180(sky.geo(planet, t + h)[0] - sky.geo(planet, t - h)[0]) / (2 * h)
        ra, rb = rate(jde - tol), rate(jde + tol)
        ok = (ra > 0 > rb) if fname == "station_longitude_1" else (ra < 0 < rb)
        if not ok:
            return "geocentric longitude rate %.5f deg/day at -%gd and %.5f at +%gd: no %s station" % (
                ra, tol, rb, tol, "first (prograde->retrograde)" if fname.endswith("1") else "second (retrograde->prograde)")
        return None
    if fname == "perihelion_aphelion":
        def rr(t):
            return sky.helio(planet, t)[2]
        hh = max(h, tol / 50.0)
        da = (rr(jde - tol + hh) - rr(jde - tol)) / hh
        db = (rr(jde + tol) - rr(jde + tol - hh)) / hh
        ok = (da < 0 < db) if variant else (da > 0 > db)
        if not ok:
            return "radius vector rate %.3e au/day at -%gd and %.3e at +%gd: no %s" % (
                da, tol, db, tol, "minimum" if variant else "maximum")
        return None
    if fname == "passage_nodes":
        a, b = sky.helio(planet, jde - tol)[1], sky.helio(planet, jde + tol)[1]
        ok = (a < 0 < b) if variant else (a > 0 > b)
        if not ok:
            return "heliocentric latitude %.6f at -%gd and %.6f at +%gd: no %s node" % (
                a, tol, b, tol, "ascending" if variant else "descending")
        return None
    return None


def call(mods, planet, fname, variant, jde):
    """-> (jde of the result, extra (elongation angle / radius) or None)"""
    cls = getattr(mods[planet], planet)
    e = mods["Epoch"].Epoch(jde)
    f = getattr(cls, fname)
    if fname == "perihelion_aphelion":
        return f(e, perihelion=variant).jde(), None
    if fname == "passage_nodes":
        t, r = f(e, ascending=variant)
        return t.jde(), float(r)
    if fname.endswith("elongation"):
        t, a = f(e)
        return t.jde(), float(a)
    return f(e).jde(), None


def replay_cmd(planet, fname, variant, jde):
    kw = ""
    if fname == "perihelion_aphelion": kw = ", perihelion=%r" % variant
    if fname == "passage_nodes": kw = ", ascending=%r" % variant
    return ("PYTHONPATH=/repo /venv/bin/python -c \"from pymeeus.Epoch import Epoch; from pymeeus.%s import %s; "
            "r=%s.%s(Epoch(%r)%s); print(r)\"" % (planet, planet, planet, fname, jde, kw))


JD_LO, JD_HI = 990557.5, 3182029.5     # Epoch.year() = -2000.0 .. 4000.0 (1 Jan -2000 Julian .. 1 Jan 4000)


def all_finders():
    out = []
    for p, fs in PERIODIC.items():
        for f in fs:
            out.append((p, f, None))
    for p in ORBITAL:
        for v in (True, False):
            out.append((p, "perihelion_aphelion", v))
        for v in (True, False):
            out.append((p, "passage_nodes", v))
    return out


def period_of(planet, fname):
    return SID[planet] if fname in ("perihelion_aphelion", "passage_nodes") else SYN[planet]


def sweep(mods, sky, planet, fname, variant, start, nper, steps, add, stats, check_every=1):
    """queries start, start + P/steps, ... over nper periods: order, spacing, no skip, distance to the query,
    and the event itself for every `check_every`-th distinct result"""
    P = period_of(planet, fname)
    orbital = fname in ("perihelion_aphelion", "passage_nodes")
    tolrel = (ORB_SPACING_TOL if orbital else SPACING_TOL)[planet]
    name = "%s.%s%s" % (planet, fname, "" if variant is None else "(%s)" % variant)
    kname = "%s.%s" % (planet, fname)
    # passage_nodes evaluates the mean orbital elements AT THE QUERY: its answer for one and the same node
    # passage drifts with the query.  Answers less than a quarter period apart are one event; "moving backwards"
    # is then judged with the accuracy the property names.  All other finders depend on the query only through
    # the event index: answers for the same event are identical.
    drift = fname == "passage_nodes"
    same_w = 0.25 * P if drift else 1e-6
    back_w = 1e-6          # "never moves backwards", literally: anything beyond float noise is a finding
    prev = None
    runmax = None
    nd = 0
    for i in range(nper * steps + 1):
        q = start + i * P / steps
        if q < JD_LO or q > JD_HI: continue
        stats["evaluations"] += 1
        if orbital:
            stats["orbital_queries"][planet] = stats["orbital_queries"].get(planet, 0) + 1
        try:
            res, extra = call(mods, planet, fname, variant, q)
        except Exception as ex:
            if orbital:
                stats["orbital_raises"][planet] = stats["orbital_raises"].get(planet, 0) + 1
            if orbital and isinstance(ex, ValueError) and RAISE_ENV.get(planet) == str(ex):
                key = "orbital-finder-raises:%s" % planet
                stats["known"][key] = stats["known"].get(key, 0) + 1
            else:
                key = "raises:%s" % kname
            add(key, "%s(Epoch(%r)) raises %s: %s" % (name, q, type(ex).__name__, ex), planet, fname, variant, q)
            prev = None
            continue
        if not (res == res and abs(res) < 1e8):
            add("nonfinite:%s" % kname, "%s(Epoch(%r)) -> %r" % (name, q, res), planet, fname, variant, q)
            continue
        # within one period of the query
        if abs(res - q) >= P:
            key = "far-from-query:%s" % kname
            if kname in FAR_ENV:
                if abs(res - q) > FAR_ENV[kname] * P: key += "-gross"
                else: stats["known"][key] = stats["known"].get(key, 0) + 1
            add(key, "%s(Epoch(%r)) -> %r, %.2f days from the query (period %.2f)" % (name, q, res, res - q, P),
                planet, fname, variant, q)
        new_event = prev is None or abs(res - prev[1]) >= same_w
        if prev is not None:
            pq, pres = prev
            if res < runmax[1] - back_w:
                amount = runmax[1] - res
                key = "moves-backwards:%s" % kname
                if kname in BACK_ENV and amount > BACK_ENV[kname]: key = "moves-backwards-gross:%s" % kname
                stats["max_backward_drift_days"][kname] = round(max(stats["max_backward_drift_days"].get(kname, 0.0), amount), 6)
                add(key, "%s: query %r -> %r but later query %r -> %r (%.4f days earlier)"
                    % (name, runmax[0], runmax[1], q, res, runmax[1] - res), planet, fname, variant, q)
            elif new_event:
                gap = res - pres
                g = stats["gaps"].setdefault(name, [gap / P, gap / P])
                g[0] = min(g[0], gap / P); g[1] = max(g[1], gap / P)
                if abs(gap - P) > tolrel * P:
                    kind = "skipped" if gap > 1.5 * P else "spacing"
                    add("%s:%s" % (kind, kname), "%s: consecutive results %r (query %r) and %r (query %r) are %.3f days apart, period %.3f +-%.1f%%"
                        % (name, pres, pq, res, q, gap, P, tolrel * 100), planet, fname, variant, q)
        if runmax is None or res > runmax[1]: runmax = (q, res)
        if new_event:
            nd += 1
            stats["distinct_nontrivial"] += 1
            if check_every and nd % check_every == 0 and not (planet == "Earth" and fname == "passage_nodes"):
                why = check_event(sky, planet, fname, variant, res, extra, ACC[planet])
                stats["events_checked"] += 1
                if why:
                    key = "not-the-event:%s" % kname
                    if kname in EVENT_ENV:
                        if check_event(sky, planet, fname, variant, res, extra, EVENT_ENV[kname]):
                            key += "-gross"
                            why += " (nor within the known envelope of %g d)" % EVENT_ENV[kname]
                        else:
                            stats["known"][key] = stats["known"].get(key, 0) + 1
                    add(key, "%s(Epoch(%r)) -> %r: %s" % (name, q, res, why), planet, fname, variant, q)
        prev = (q, res)


def search(rng, tier, deep):
    mods = load(MODULES[1:] if MODULES[0] == "base" else MODULES)
    Epoch = mods["Epoch"].Epoch
    sky = Sky(mods)
    findings = []
    seen = {}
    def add(key, what, planet, fname, variant, q):
        seen[key] = seen.get(key, 0) + 1
        if seen[key] <= 2 and len(findings) < 60:
            findings.append({"key": key, "what": what, "input": [planet, fname, variant, q],
                             "replay": replay_cmd(planet, fname, variant, q)})
    stats = {"evaluations": 0, "distinct_nontrivial": 0, "events_checked": 0, "gaps": {}, "known": {},
             "max_backward_drift_days": {}, "orbital_queries": {}, "orbital_raises": {},
             "known_envelopes": {"event_offset_days": EVENT_ENV, "backward_drift_days": BACK_ENV,
                                 "measured_on_unchanged_tree": "event offsets (max over -2000..4000): Jupiter nodes 15..20 d, Saturn nodes 60..80 d, Uranus nodes 400..500 d, "
                                 "Uranus perihelion/aphelion 6..8 d; backward drift within one node passage: Saturn <= 10.4 d, Uranus <= 69 d; "
                                 "ValueError: Jupiter 76/1012 and Saturn 44/408 of the orbits -2000..4000"}}
    full = deep or tier == "thorough"
    for (p, f, v) in all_finders():
        P = period_of(p, f)
        orbital = f in ("perihelion_aphelion", "passage_nodes")
        if orbital:
            neras, nper, steps, ce = (3, 3, 8, 1) if not full else (24, 4, 10, 1)
        else:
            neras, nper, steps, ce = (6, 4, 20, 1) if not full else (60, 8, 20, 1)
        span = nper * P
        starts = [JD_LO + 2, JD_HI - 2 - span] + [rng.uniform(JD_LO + 2, JD_HI - 2 - span) for _ in range(max(0, neras - 2))]
        if P * nper > (JD_HI - JD_LO) / 2:
            starts = [JD_LO + 2]
        for s in starts[:neras]:
            sweep(mods, sky, p, f, v, s, nper, steps, add, stats, ce)
        if (p, f, v) == ("Mercury", "passage_nodes", False):
            sweep(mods, sky, p, f, v, 3147984.071399223, 1, 1, add, stats, 1)
    # the known "orbital finder raises" finding is bounded in rate: a change that makes the finder raise (much) more
    # often is reported under a key of its own
    for p in ORBITAL:
        nq, nr = stats["orbital_queries"].get(p, 0), stats["orbital_raises"].get(p, 0)
        if nq >= RAISE_RATE_MIN_QUERIES and nr / nq > RAISE_RATE_MAX.get(p, 0.0):
            findings.append({"key": "orbital-finder-raises-gross:%s" % p,
                             "what": "%s.perihelion_aphelion / passage_nodes raised for %d of %d queries (%.1f %%; calibrated maximum %.0f %%)"
                                     % (p, nr, nq, 100.0 * nr / nq, 100.0 * RAISE_RATE_MAX.get(p, 0.0)),
                             "input": [p, nr, nq], "replay": "see the orbital-finder-raises / raises findings of this run for a concrete query"})
    # (c) refusals
    for p, fs in PERIODIC.items():
        cls = getattr(mods[p], p)
        for f in fs:
            fn = getattr(cls, f)
            for args, want in (((Epoch(-2001, 12, 30.0),), ValueError), ((Epoch(4001, 1, 2.0),), ValueError),
                               ((Epoch(-2500, 1, 1.0),), ValueError), ((Epoch(5000, 1, 1.0),), ValueError),
                               ((2451545.0,), TypeError), ((None,), TypeError), (("2000-01-01",), TypeError),
                               (((2000, 1, 1),), TypeError)):
                stats["evaluations"] += 1
                try:
                    r = fn(*args)
                    add("not-refused:%s.%s" % (p, f), "%s.%s(%r) returns %r, expected %s" % (p, f, args[0], r, want.__name__),
                        p, f, None, repr(args[0]))
                except want:
                    pass
                except Exception as ex:
                    add("wrong-exception:%s.%s" % (p, f), "%s.%s(%r) raises %s, expected %s" % (p, f, args[0], type(ex).__name__, want.__name__),
                        p, f, None, repr(args[0]))
            # the ends of the range are accepted
            for e in (Epoch(-2000, 1, 1.0), Epoch(-2000, 1, 2.0), Epoch(3999, 12, 30.0), Epoch(4000, 1, 1.0)):
                stats["evaluations"] += 1
                try:
                    fn(e)
                except Exception as ex:
                    add("refused-in-range:%s.%s" % (p, f), "%s.%s(Epoch(%r)) raises %s" % (p, f, e.jde(), type(ex).__name__),
                        p, f, None, e.jde())
    for p in ORBITAL:
        cls = getattr(mods[p], p)
        for f in ("perihelion_aphelion", "passage_nodes"):
            for a in (2451545.0, None):
                stats["evaluations"] += 1
                try:
                    getattr(cls, f)(a)
                    add("not-refused:%s.%s" % (p, f), "%s.%s(%r) accepted" % (p, f, a), p, f, True, repr(a))
                except TypeError:
                    pass
                except Exception as ex:
                    add("wrong-exception:%s.%s" % (p, f), "%s.%s(%r) raises %s" % (p, f, a, type(ex).__name__), p, f, True, repr(a))
    # Earth.passage_nodes: the Earth's heliocentric latitude is zero up to 1e-4 deg at all times (ecliptic of
    # date); "latitude zero at the node" cannot be tested for it -- order/spacing are.
    # Epoch.year: non-decreasing in the JDE, and within 20 days of the Gregorian mean-year instant
    def year_scan(lo, hi, step):
        prev = None
        j = lo
        while j <= hi:
            stats["evaluations"] += 1
            try:
                y = Epoch(j).year()
            except Exception as ex:
                findings.append({"key": "year-raises", "what": "Epoch(%r).year() raises %s" % (j, type(ex).__name__), "input": j,
                                 "replay": "PYTHONPATH=/repo /venv/bin/python -c \"from pymeeus.Epoch import Epoch; print(Epoch(%r).year())\"" % j})
                return
            if prev is not None and y < prev[1]:
                findings.append({"key": "year-not-monotone", "what": "Epoch(%r).year() = %r but Epoch(%r).year() = %r" % (prev[0], prev[1], j, y),
                                 "input": j, "replay": "PYTHONPATH=/repo /venv/bin/python -c \"from pymeeus.Epoch import Epoch; print(Epoch(%r).year(), Epoch(%r).year())\"" % (prev[0], j)})
                return
            if abs(365.2425 * y + 1721060.0 - j) > 20.0:
                findings.append({"key": "year-far", "what": "Epoch(%r).year() = %r: 365.2425*y+1721060 is %.2f days from the JDE" % (j, y, 365.2425 * y + 1721060.0 - j),
                                 "input": j, "replay": "PYTHONPATH=/repo /venv/bin/python -c \"from pymeeus.Epoch import Epoch; print(Epoch(%r).year())\"" % j})
                return
            prev = (j, y)
            j += step
    for yy in [-2000, -1000, -4, 0, 100, 1000, 1500, 1582, 1600, 1900, 2000, 2100, 3999] + [rng.randint(-2000, 3999) for _ in range(4 if not full else 40)]:
        j0 = Epoch(yy, 1, 1.0).jde()
        year_scan(j0 - 3.0, j0 + 370.0, 0.37)
    if full:
        year_scan(JD_LO, JD_HI, 7.3)
    stats["rule"] = ("every finder (28 periodic-term + 7 perihelion_aphelion x2 + 7 passage_nodes x2): queries in steps of 1/%s period over "
                     "%s eras (both ends of -2000..4000 + random): order, spacing, no skip, distance to query; every distinct result checked "
                     "against the library's VSOP87 positions (sign change of the defining quantity within the series accuracy); refusals; "
                     "Epoch.year monotone + within 20 d of the mean-year instant" % ("20", "60" if full else "6"))
    stats["samples"] = [{"input": "Venus.inferior_conjunction(Epoch(1882,12,1.0))", "checked": "heliocentric longitudes of Venus and Earth cross within +-1 d of the result"}]
    stats["vsop_evaluations"] = sky.n
    stats["gaps"] = {k: [round(v[0], 4), round(v[1], 4)] for k, v in stats["gaps"].items()}
    return findings, stats
