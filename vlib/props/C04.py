"""C04 — sexagesimal and right-ascension decomposition and printing are canonical."""
import math, re, sys
from fractions import Fraction as Fr
from vlib import common as K
from vlib.impl import load

ID = "C04"
MODULES = K.mods("base", "Angle")
REQUIRED = ["Angle.__init__", "Angle.set", "Angle.reduce_deg", "Angle.reduce_dms", "Angle.dms2deg", "Angle.deg2dms",
            "Angle.dms_tuple", "Angle.ra_tuple", "Angle.dms_str", "Angle.ra_str", "Angle.__call__",
            "Angle.__truediv__"]
THEOREMS = ["C04_deg2dms_ideal", "C04_tuples_ideal", "C04_inverse_ideal", "C04_print_grid_b64", "C04_tuple_grid_b64", "C04_deg2dms_b64"]
PROOF_TIMEOUT = {"quick": 1500, "thorough": 3000}
EXHAUSTIVE = False
NSHARD = 16
MANIFEST = {
    "category": "proof",
    "text": ("Ideal (real-arithmetic) instance of the regenerated Angle model, for ALL real x in (-360,360): deg2dms(x) = "
             "(floor|x|, floor(frac|x|*60), seconds, sign) with integer degrees in [0,360), minutes in [0,60), 0<=s<60, "
             "sign +-1 and d+m/60+s/3600 = |x| exactly; dms_tuple/ra_tuple likewise (hours in [0,24)); "
             "sign*dms2deg(d,m,s) gives x back.  Binary64 instance (with the library's repr(float) = CPython's shortest "
             "round-trip algorithm, validated bit-exactly on 119565 floats): the strings produced by the generated "
             "dms_str/ra_str are parsed back inside Coq and checked by the kernel on an explicit grid of 4678 values (4224 "
             "whole seconds/minutes/degrees and RA analogues perturbed by 0,+-1,+-2 ulp,+-1e-12,+-5e-13,+-1e-13; 54 around 0 "
             "and +-360; 400 pseudo-random; n_dec -1..12; fancy and colon; angle and RA = 261968 strings): no 60 in minutes/seconds, leading field below a turn or the print is exactly the whole turn "
             "(24h 0' 0.0''), sign once on the leading non-zero field, read-back within half a unit of the requested decimal + 4 ulp of |x|*3600 (|x|*240 RA) "
             "modulo 360 deg / 24 h; field ranges and 1e-9 recombination of dms_tuple/ra_tuple on the same grid.  "
             "Bit-exact correspondence of the strings and a Python oracle of every clause each run."),
    "technique": ("symbolic evaluation of the generated model over the reals (pyrun) + floor lemmas (lra/lia); kernel "
                  "computation (vm_compute) of the generated string formatting on a finite binary64 grid with a decimal "
                  "parser and exact rational comparison; bit-exact differential correspondence incl. strings; "
                  "boundary-directed search with regex parser and Fraction reference"),
    "design_ref": "8/C04",
}
EXPLANATION = ("deg2dms / dms_tuple / ra_tuple / dms2deg of the model regenerated from /repo are characterised over the "
               "reals for every x in (-360,360) (theorems *_ideal; nothing about rounding).  The printed forms are "
               "checked in binary64: the generated dms_str/ra_str (incl. Python's repr(float), implemented in "
               "coq/lib/B64.v) are run by the Coq kernel on an explicit finite grid concentrated on field boundaries, "
               "the strings parsed back in Coq and compared exactly (rationals) with the input.  All floats is not "
               "proved (DESIGN T3); the grid, the bit-exact string correspondence and the search oracle cover it.")
CLAUSES = {
    "dms_tuple/deg2dms: integer degrees in [0,360), integer minutes in [0,60), 0<=seconds<60, sign +-1":
        "proved [ideal, all real x in (-360,360)]; deg2dms: proved [B64, EVERY finite float: C04_deg2dms_b64 - degrees = floor|red360 x| in 0..359, minutes in 0..59, 0 <= seconds < 60 (60 (1-2^-53) rounds below 60.0, monotonicity of RN), sign +-1.0, exact formula of each field]; dms_tuple via the grid (C04_tuple_grid_b64) + searched",
    "ra_tuple: hours in [0,24), minutes, seconds, sign likewise":
        "proved [ideal, all real x in (-360,360)]; proved [B64, grid]; searched",
    "recombination sign*(d+m/60+s/3600) reproduces the value":
        "proved [ideal: exactly]; proved [B64, grid: within 1e-9 degree, exact rational comparison]; searched (1e-9)",
    "dms2deg inverts the decomposition": "proved [ideal: sign*dms2deg(d,m,s) = x]; searched (1e-9)",
    "printed forms never show 60 in minutes or seconds (n_dec -1..12, fancy/colon, angle/RA)":
        "proved [B64, grid stated in C04_print_grid_b64, strings parsed in Coq]; searched",
    "printed leading field below a whole turn (360 deg / 24 h), or exactly the whole turn with 0' 0.0''":
        "proved [B64, grid]; searched.  Remark (not a finding: the text asks for the read-back modulo 24 h only): Angle(359.9999999999).ra_str(True, 2) = \"24h 0' 0.0''\" because the 360-wrap after the rounding carry is applied to hours too",
    "sign exactly once, on the leading non-zero field": "proved [B64, grid]; searched",
    "read-back = value rounded at the requested decimal, modulo 360 deg / 24 h":
        "proved [B64, grid: |read-back - value| <= half a unit of the requested decimal + 4 ulp of the double |x|*3600 (|x|*240 for RA) + 1e-300 s, modulo a turn; printed seconds is a multiple of 10^-n_dec]; searched",
    "views after a mutator on the SAME object (to_positive, set in every input form, set_ra, set_radians, in-place operators) equal those of a fresh Angle of the same value: tuples bit for bit, strings equal":
        "searched (deterministic sequences + 300 random 2-4 step sequences per quick run, key sequence-stale-tuple); the model is a pure function of the stored value (value semantics, translator alias analysis trusted), so stage P sees such a change only as a change of the function text",
    "characters produced by repr(float)": "modelled (B64.b64_repr = dtoa mode 0 + 'r' layout), validated bit-exactly against CPython on 119565 random/boundary floats; every run: strings compared bit for bit in the correspondence stage",
}


def proof_files(tier):
    return (["C04_defs.v"] + ["C04_shard_%02d.v" % k for k in range(NSHARD)]
            + ["C04_grid.v", "C04_tac.v", "C04_ideal.v", "C04_reduce_b64.v", "C04_b64.v", "C04.v"])


# ----------------------------------------------------------------------------------------------
def ulps(x, n):
    for _ in range(abs(n)):
        x = math.nextafter(x, math.inf if n > 0 else -math.inf)
    return x


def gen_values(rng, n):
    """Angle values in (-360,360) concentrated within 1e-12 of whole seconds/minutes/degrees, 0, 360
    (and the same for the value / 15)."""
    out = [0.0, -0.0, 5e-324, -5e-324, 1e-300, -1e-300, 1e-20, -1e-20, 1e-12, -1e-12, 1e-13, -1e-13, 1e-9, -1e-9,
           2.7e-9, -2.7e-9, 1e-5 / 3600, -1e-5 / 3600, 59.99995 / 3600, -59.99995 / 3600,
           359.9999999999, -359.9999999999, 359.99999999999994, -359.99999999999994, 359.999999999999, -359.999999999999,
           13.51234, -13.51234, 42.75, 49 + 13 / 60.0 + 42.4817 / 3600, 138.75, 23.44694444, -0.5, -0.009, 0.9999999999999,
           -0.9999999999999, 13.9999999999999, -0.0166666666666, 344.99999999999994, 345.0, 15.0, -15.0]
    for k in range(1, 5):
        out += [ulps(360.0, -k), -ulps(360.0, -k), ulps(0.0, k), -ulps(0.0, k)]
    for _ in range(n):
        r = rng.random()
        ra = rng.random() < 0.35
        top = 24 if ra else 360
        d = rng.choice([0, 0, 1, top - 1, top - 1, rng.randint(0, top - 1), rng.randint(0, top - 1)])
        if r < 0.2:   m, s = 0, 0                                   # whole degree / hour
        elif r < 0.45: m, s = rng.choice([1, 59, rng.randint(0, 59)]), 0    # whole minute
        elif r < 0.8: m, s = rng.choice([0, 59, rng.randint(0, 59)]), rng.choice([0, 1, 59, rng.randint(0, 59)])
        elif r < 0.9:                                                # rounding tie of the seconds at some decimal
            nd = rng.randint(0, 12)
            m, s = rng.randint(0, 59), rng.randint(0, 59) + Fr(rng.randint(0, 10 ** min(nd, 5)), 10 ** min(nd, 5)) + Fr(5, 10 ** (nd + 1))
        else:
            out.append(rng.uniform(-360, 360)); continue
        q = Fr(d) + Fr(m) / 60 + Fr(s) / 3600
        if ra: q *= 15
        x = float(q)
        k = rng.random()
        if k < 0.3: x = ulps(x, rng.randint(-4, 4))
        elif k < 0.5: x = x + rng.choice([-1, 1]) * rng.choice([1e-12, 1e-13, 5e-13, 2e-12])
        elif k < 0.65: x = x + rng.uniform(-1e-12, 1e-12)
        elif k < 0.75: x = x + rng.choice([-1, 1]) * 10 ** rng.uniform(-14, -3)
        if rng.random() < 0.5: x = -x
        out.append(x)
    return [x for x in out if abs(x) < 360]


# ----------------------------------------------------------------------------------------------
# correspondence cases (strings compared bit for bit with the model)

def cases(rng, tier):
    n = 90 if tier == "quick" else 900
    vals = gen_values(rng, n)
    cs = []
    fixed = vals[:46]
    rest = vals[46:]
    rng.shuffle(fixed)
    for x in fixed[:(24 if tier == "quick" else 46)] + rest:
        k = rng.random()
        nd = rng.randint(-1, 12)
        fancy = rng.random() < 0.5
        if k < 0.40: cs.append("Angle(%r).dms_str(%r, %d)" % (x, fancy, nd))
        elif k < 0.70: cs.append("Angle(%r).ra_str(%r, %d)" % (x, fancy, nd))
        elif k < 0.78: cs.append("Angle(%r).dms_tuple()" % (x,))
        elif k < 0.86: cs.append("Angle(%r).ra_tuple()" % (x,))
        elif k < 0.93: cs.append("Angle.deg2dms(%r)" % (x,))
        else:
            cs.append("Angle.dms2deg(%d, %d, %r)" % (rng.randint(0, 400), rng.randint(0, 70), rng.uniform(0, 70)))
    cs += ["Angle(13.51234).dms_str(True, 3)", "Angle(42.75).dms_str()", "Angle(42.75).dms_str(fancy=False)",
           "Angle(49, 13, 42.4817).dms_str(n_dec=2)", "Angle(138.75).ra_str()", "Angle(138.75).ra_str(fancy=False)",
           "Angle(2, 44, 11.98581, ra=True).ra_str(n_dec=3)", "Angle(359.9999999999).ra_str(True, 2)",
           "Angle(359.9999999999).dms_str(True, 2)", "Angle(-359.9999999999).dms_str(False, 0)",
           "Angle(-1e-9).dms_str(True, -1)", "Angle(-1e-9).dms_str(False, 12)", "Angle(-0.5).dms_str(True, 3)",
           "Angle(-0.009).dms_str(False, 1)", "Angle(1e-5/3600).dms_str(True, 12)", "Angle(0.0).dms_str()",
           "Angle(0.0).ra_str(False, 5)", "Angle(10.5).dms_str(True, 1.0)", "Angle(10.5).dms_str(True, None)",
           "Angle(10.5).ra_str(True, '3')", "Angle.deg2dms(23.44694444)", "Angle.deg2dms(-743.4471111111111)",
           "Angle.deg2dms(725)", "Angle.dms2deg(-23, 26, 48.999983999997596)", "Angle.reduce_dms(-743.0, 26.0, 49.6)",
           "Angle.reduce_dms(10, 59.5, 59.5)", "Angle(-59.99995/3600).dms_str(False, 4)"]
    return cs


# ----------------------------------------------------------------------------------------------
# search oracle: the property text on the implementation

TOL9 = Fr(1, 10 ** 9)            # 1e-9 degree (tuple recombination, the property's own tolerance)
READBACK_ULPS = 4                # printed forms: ulps of |x|*3600 allowed on top of half a unit of the last decimal
FLT = r"-?(?:\d+\.\d+|\d+)(?:e[+-]\d+)?"
RE_FANCY = re.compile(r"^(?:(?P<d>-?\d+)(?P<u>[dh]) )?(?:(?P<m>-?\d+)' )?(?P<s>%s)''$" % FLT)
RE_COLON = re.compile(r"^(?P<d>-?\d+):(?P<m>-?\d+):(?P<s>%s)$" % FLT)


def parse_printed(txt, fancy, ra):
    """-> (d, m, s) as strings (None = field absent) or None when the string has not the documented shape"""
    mo = (RE_FANCY if fancy else RE_COLON).match(txt)
    if not mo: return None
    if fancy:
        if mo.group("d") is not None and mo.group("m") is None: return None
        if mo.group("u") is not None and mo.group("u") != ("h" if ra else "d"): return None
    return mo.group("d"), mo.group("m"), mo.group("s")


def check_printed(x, txt, fancy, n_dec, ra):
    """the printed-form clauses; returns list of (key, what)"""
    bad = []
    who = "Angle(%r).%s(%r, %d) = %r" % (x, "ra_str" if ra else "dms_str", fancy, n_dec, txt)
    p = parse_printed(txt, fancy, ra)
    if p is None:
        return [("print-shape", who + ": not of the documented form")]
    ds, ms, ss = p
    fields = [("d", ds), ("m", ms), ("s", ss)]
    d = abs(int(ds)) if ds is not None else 0
    m = abs(int(ms)) if ms is not None else 0
    s = abs(Fr(ss))
    if m >= 60: bad.append(("print-minutes-60", who + ": minutes field %d" % m))
    if s >= 60: bad.append(("print-seconds-60", who + ": seconds field %s" % ss))
    top = 24 if ra else 360
    # the property asks for the read-back modulo a turn: a printed whole turn (24h 0' 0.0'' / 360d 0' 0.0'') is accepted,
    # anything beyond is not
    if d > top or (d == top and (m != 0 or s != 0)):
        bad.append(("print-leading-field-range", who + ": leading field %d beyond a whole turn (%d)" % (d, top)))
    # sign: exactly once, on the leading non-zero field; none when the value is positive or prints as zero
    vals = [d, m, s]
    negs = [f is not None and f.startswith("-") for (_, f) in fields]
    lead = next((i for i in range(3) if vals[i] != 0), None)
    want = [False, False, False]
    if lead is not None and x < 0: want[lead] = True
    if negs != want:
        bad.append(("print-sign", who + ": minus signs on fields %s, expected %s" % (negs, want)))
    # seconds carries at most the requested decimals
    if n_dec >= 0 and s * 10 ** n_dec != int(s * 10 ** n_dec):
        bad.append(("print-decimals", who + ": seconds %s has more than %d decimals" % (ss, n_dec)))
    # read-back: equals the value rounded at the requested decimal, modulo a turn.  Allowed: half a unit of the
    # last requested decimal (the rounding asked for) + READBACK_ULPS ulps of |x|*3600 (|x|*240 for RA seconds),
    # the binary64 resolution of the value expressed in seconds (measured need: <= 1.4 ulp), + 1e-300 s for the
    # underflow of x/15 on denormals.
    k = 240 if ra else 3600
    per = Fr(top * 3600)
    back = (Fr(d) * 3600 + Fr(m) * 60 + s) * (-1 if any(negs) else 1)      # seconds of arc / of time
    true = Fr(x) * k
    tol = READBACK_ULPS * Fr(math.ulp(abs(x) * k)) + Fr(1, 10 ** 300)
    step = Fr(1, 2 * 10 ** n_dec) if n_dec >= 0 else Fr(0)
    diff = (back - true) % per
    diff = min(diff, per - diff)
    if diff > step + tol:
        bad.append(("print-readback", who + ": reads back %s s off (allowed %s)" % (float(diff), float(step + tol))))
    return bad


def check_tuple(x, t, ra, who):
    bad = []
    top = 24 if ra else 360
    if not (isinstance(t, tuple) and len(t) == 4):
        return [("tuple-shape", "%s = %r" % (who, t))]
    d, m, s, sg = t
    if not (isinstance(d, int) and not isinstance(d, bool) and 0 <= d < top):
        bad.append(("tuple-degrees", "%s = %r: leading field not an int in [0,%d)" % (who, t, top)))
    if not (isinstance(m, int) and not isinstance(m, bool) and 0 <= m < 60):
        bad.append(("tuple-minutes", "%s = %r: minutes not an int in [0,60)" % (who, t)))
    if not (isinstance(s, float) and 0 <= s < 60):
        bad.append(("tuple-seconds", "%s = %r: seconds not in [0,60)" % (who, t)))
    if not (sg == 1 or sg == -1):
        bad.append(("tuple-sign", "%s = %r: sign not +-1" % (who, t)))
    if not bad:
        back = Fr(int(sg)) * (Fr(d) + Fr(m) / 60 + Fr(s) / 3600) * (15 if ra else 1)
        if abs(back - Fr(x)) > TOL9:
            bad.append(("tuple-recombine", "%s = %r recombines to %r" % (who, t, float(back))))
    return bad


# ----------------------------------------------------------------------------------------------
# call sequences on ONE object: view -> mutator -> the same views must be those of a fresh Angle of the same value

SEQ_VIEWS = ["a.dms_tuple()", "a.ra_tuple()", "a.dms_str(True, -1)", "a.dms_str(False, 3)", "a.dms_str(True, 0)",
             "a.dms_str(False, 12)", "a.ra_str(True, -1)", "a.ra_str(False, 2)", "a.ra_str(True, 0)", "a.ra_str(True, 12)"]


def exact(v):
    """bit-for-bit image of a view result (float bits, int/float distinguished)"""
    if isinstance(v, tuple): return tuple(exact(e) for e in v)
    if isinstance(v, float): return ("f", v.hex())
    return (type(v).__name__, v)


def gen_mutator(rng):
    """source of one statement changing the value held by the name `a`"""
    v = rng.choice([rng.uniform(-359, 359), rng.randint(-359, 359) + rng.choice([0, 0.5, 0.25]), rng.uniform(-1, 1),
                    rng.choice([1, -1]) / 3600.0, rng.choice([1, -1]) * 10 ** rng.uniform(-9, 2)])
    d, m, sec = rng.randint(0, 359), rng.randint(0, 59), round(rng.uniform(0, 59.99), rng.randint(0, 6))
    if rng.random() < 0.3: d = -d
    h = rng.randint(0, 23)
    k = rng.choice([2, 3, -2, 0.5, 1.5, 7, 15, -0.25, rng.uniform(0.1, 20)])
    forms = ["a.to_positive()", "a.to_positive()", "a.to_positive()",
             "a.set(%r)" % v, "a.set(%d, %d, %r)" % (d, m, sec), "a.set((%d, %d, %r))" % (d, m, sec),
             "a.set([%d, %d])" % (d, m), "a.set([%r])" % v, "a.set(%d, %d, %r, %r)" % (abs(d), m, sec, rng.choice([1.0, -1.0])),
             "a.set(Angle(%r))" % v, "a.set(%r, radians=True)" % (v / 57.0), "a.set(%d, %d, %r, ra=True)" % (h, m, sec),
             "a.set()", "a.set_ra(%r)" % (abs(v) / 15.0), "a.set_ra(%d, %d, %r)" % (h, m, sec), "a.set_ra((%d, %d, %r))" % (h, m, sec),
             "a.set_radians(%r)" % (v / 57.0),
             "a += %r" % v, "a -= %r" % v, "a += Angle(%r)" % v, "a -= Angle(%r)" % v, "a *= %r" % k, "a /= %r" % k,
             "a %%= %r" % abs(k), "a **= 2", "a += %r" % (1 / 3600.0), "a -= %r" % (1 / 3600.0), "a += %r" % (1 / 60.0)]
    return rng.choice(forms)


def run_sequence(Angle, start, steps):
    """steps: list of (views called before the mutator, mutator source).  Returns None or (what, program)."""
    env = {"Angle": Angle}
    prog = ["a = Angle(%r)" % (start,)]
    exec(prog[0], env)
    for (views, mut) in steps:
        for vw in views:
            eval(vw, env); prog.append(vw)
        try:
            exec(mut, env)
        except Exception as ex:
            return ("raises", "%s raises %r" % ("; ".join(prog + [mut]), ex), prog + [mut], None)
        prog.append(mut)
        a = env["a"]
        if not isinstance(a, Angle):
            return ("raises", "%s leaves a %s" % ("; ".join(prog), type(a).__name__), prog, None)
        fresh = {"Angle": Angle, "a": Angle(a())}
        for vw in SEQ_VIEWS:
            got, want = eval(vw, env), eval(vw, fresh)
            if exact(got) != exact(want):
                return ("stale", "%s; %s = %r but a fresh Angle(%r) gives %r" % ("; ".join(prog), vw, got, a(), want), prog, vw)
    return None


def search_sequences(rng, Angle, nrandom, add):
    n = 0
    fixed = [(-10.5, [(["a.dms_tuple()"], "a.to_positive()")]),
             (-10.5, [(["a.dms_str(True, 2)"], "a.to_positive()")]),
             (-0.009, [(SEQ_VIEWS, "a.to_positive()")]),
             (10 + 29 / 60.0 + 59.5 / 3600.0, [(SEQ_VIEWS, "a += %r" % (1 / 3600.0))]),
             (10 + 29 / 60.0 + 59.5 / 3600.0, [(["a.dms_tuple()", "a.ra_str(True, 0)"], "a -= %r" % (60 / 3600.0)), (["a.dms_tuple()"], "a += 1")]),
             (-0.5, [(["a.dms_str(False, 3)", "a.dms_tuple()"], "a.set(349, 30, 0)")]),
             (138.75, [(["a.ra_tuple()", "a.ra_str(True, -1)", "a.dms_tuple()"], "a.set_ra(9, 14, 55.8)")]),
             (12.5, [(SEQ_VIEWS, "a.set_radians(1.0)"), (SEQ_VIEWS, "a *= -2"), (SEQ_VIEWS, "a /= 15"), (SEQ_VIEWS, "a %= 7")]),
             (-200.25, [(["a.dms_tuple()"], "a -= Angle(3.25)"), (["a.dms_tuple()", "a.ra_tuple()"], "a.to_positive()"),
                        (["a.dms_tuple()"], "a.set((1, 2, 3.5))"), (["a.dms_tuple()"], "a.set(Angle(-7.125))")]),
             (359.9999999999, [(SEQ_VIEWS, "a.set(-359.9999999999)"), (SEQ_VIEWS, "a.to_positive()")])]
    seqs = list(fixed)
    starts = [x for x in gen_values(rng, max(40, nrandom // 3)) if x == x]
    for _ in range(nrandom):
        x = rng.choice(starts) if rng.random() < 0.6 else -abs(rng.uniform(0.001, 359.9))
        steps = []
        for _ in range(rng.randint(2, 4)):
            views = rng.sample(SEQ_VIEWS, rng.randint(1, 4))
            if rng.random() < 0.7 and "a.dms_tuple()" not in views: views.insert(rng.randint(0, len(views)), "a.dms_tuple()")
            steps.append((views, gen_mutator(rng)))
        seqs.append((x, steps))
    for (x, steps) in seqs:
        n += sum(len(v) + 1 + len(SEQ_VIEWS) for (v, _) in steps)
        r = run_sequence(Angle, x, steps)
        if r:
            kind, what, prog, vw = r
            shown = "(%s, Angle(a()).%s)" % (vw, vw[2:]) if vw else "a()"
            replay = "PYTHONPATH=/repo /venv/bin/python -c \"from pymeeus.Angle import Angle; %s; print%s\"" % (
                "; ".join(prog), shown if not vw else shown)
            add("sequence-stale-tuple" if kind == "stale" else "sequence-raises", what, [x] + [m for (_, m) in steps], replay)
    return n, len(seqs)


def search(rng, tier, deep):
    Angle = load(["Angle"])["Angle"].Angle
    full = deep or tier == "thorough"
    vals = gen_values(rng, 12000 if full else 1300)
    findings, seen = [], {}
    n = nontriv = 0

    def add(key, what, inp, replay):
        if seen.get(key, 0) < 3:
            findings.append({"key": key, "what": what, "input": inp, "replay": replay})
        seen[key] = seen.get(key, 0) + 1

    def rp(expr):
        return "PYTHONPATH=/repo /venv/bin/python -c \"from pymeeus.Angle import Angle; print(%s)\"" % expr

    for x in vals:
        a = Angle(x)
        if a() != x:
            add("angle-value", "Angle(%r)() = %r" % (x, a()), x, rp("Angle(%r)()" % x)); continue
        for (ra, who, f) in ((False, "Angle(%r).dms_tuple()" % x, a.dms_tuple), (True, "Angle(%r).ra_tuple()" % x, a.ra_tuple),
                             (False, "Angle.deg2dms(%r)" % x, lambda: Angle.deg2dms(x))):
            n += 1
            try:
                t = f()
            except Exception as ex:
                add("tuple-raises", "%s raises %r" % (who, ex), x, rp(who)); continue
            for (key, what) in check_tuple(x, t, ra, who):
                add(key, what, x, rp(who))
            if not ra and isinstance(t, tuple) and len(t) == 4:
                # d/m/s -> decimal inverts it
                n += 1
                try:
                    back = Angle.dms2deg(t[0], t[1], t[2]) * t[3]
                    if abs(Fr(back) - Fr(x)) > TOL9:
                        add("dms2deg-inverse", "dms2deg%r * sign = %r, value %r" % (t[:3], back, x), x,
                            rp("Angle.dms2deg(*Angle.deg2dms(%r)[:3])" % x))
                    r = Angle.reduce_dms(t[0], t[1], t[2])
                    if tuple(r[:3]) != tuple(t[:3]) or r[3] != 1.0:
                        add("reduce_dms-canonical", "reduce_dms%r = %r" % (t[:3], r), x, rp("Angle.reduce_dms(*Angle.deg2dms(%r)[:3])" % x))
                except Exception as ex:
                    add("dms2deg-raises", "dms2deg%r raises %r" % (t[:3], ex), x, rp("Angle.dms2deg(*Angle.deg2dms(%r)[:3])" % x))
        nontriv += 1
        for ra in (False, True):
            for fancy in (True, False):
                for nd in range(-1, 13):
                    n += 1
                    call = "Angle(%r).%s(%r, %d)" % (x, "ra_str" if ra else "dms_str", fancy, nd)
                    try:
                        txt = (a.ra_str if ra else a.dms_str)(fancy, nd)
                    except Exception as ex:
                        add("print-raises", "%s raises %r" % (call, ex), [x, fancy, nd, ra], rp(call)); continue
                    for (key, what) in check_printed(x, txt, fancy, nd, ra):
                        add(key, what, [x, fancy, nd, ra], rp(call))
        if len(findings) > 40: break
    # call sequences on one object
    nseq_eval, nseq = search_sequences(rng, Angle, 3000 if full else 300, add)
    n += nseq_eval
    # n_dec must be an int
    for bad_nd in (1.0, None, "3"):
        n += 1
        for meth in ("dms_str", "ra_str"):
            try:
                getattr(Angle(10.5), meth)(True, bad_nd)
                add("n_dec-type", "Angle(10.5).%s(True, %r) accepted" % (meth, bad_nd), bad_nd, rp("Angle(10.5).%s(True, %r)" % (meth, bad_nd)))
            except TypeError:
                pass
            except Exception as ex:
                add("n_dec-type", "Angle(10.5).%s(True, %r) raises %r" % (meth, bad_nd, ex), bad_nd, "")
    stats = {"evaluations": n, "distinct_nontrivial": nontriv,
             "rule": ("%d Angle values in (-360,360): whole seconds/minutes/degrees (and RA analogues) +-0..4 ulp, +-1e-12..1e-13, "
                      "rounding ties of the seconds, 0 and +-360 neighbourhoods, random; each: dms_tuple, ra_tuple, deg2dms, "
                      "dms2deg inverse, and dms_str/ra_str for n_dec -1..12 x fancy/colon parsed with a regex; %d call sequences on one object "
                      "(views -> mutator -> views compared bit for bit with a fresh Angle of the same value, 1-4 mutators each)" % (len(vals), nseq)),
             "samples": [{"input": [359.9999999999, True, 2, False], "checked": "dms_str -> 0d 0' 0.0'': no 60, sign, read-back mod 360"}],
             "finding_counts": seen}
    return findings, stats
