"""C09 — geocentric positions match the library's own heliocentric vectors."""
import math, sys
from vlib import common as K
from vlib.impl import load

ID = "C09"
# "Moon" is here only because the imported C08 nutation theorems (C08_nut_bound.v) mention Moon's node polynomial
MODULES = K.mods("base", "Angle", "Epoch", "Interpolation", "Coordinates", "Earth", "Sun", "Moon", "Mercury", "Venus",
                 "Mars", "Jupiter", "Saturn", "Uranus", "Neptune", "Pluto", "Minor")
PLANETS = ["Mercury", "Venus", "Mars", "Jupiter", "Saturn", "Uranus", "Neptune"]
REQUIRED = (["%s.geocentric_position" % p for p in PLANETS]
            + ["%s.geometric_heliocentric_position" % p for p in PLANETS]
            + ["Earth.geometric_heliocentric_position", "Sun.apparent_geocentric_position",
               "Sun.rectangular_coordinates_j2000", "nutation_longitude", "true_obliquity",
               "ecliptical2equatorial", "kepler_equation",
               "Pluto.geometric_heliocentric_position", "Pluto.geocentric_position",
               "Minor.__init__", "Minor.set", "Minor._near_parabolic", "Minor.geocentric_position",
               "Minor.heliocentric_ecliptical_position"])
THEOREMS = ["C09_final_stage_direction",
            "C09_elongation_range",
            "C09_elongation_cos",
            "C09_corrections_small",
            "C09_minor_set",
            "C09_minor_set_parabolic",
            "C09_minor_gauss",
            "C09_body_Mercury",
            "C09_body_Venus",
            "C09_body_Mars",
            "C09_body_Jupiter",
            "C09_body_Saturn",
            "C09_body_Uranus",
            "C09_body_Neptune",
            "C09_body_direction",
            "C09_body_corrections",
            "C09_body_elongation",
            "C09_body_LAMG_BETG",
            "C09_body_radec",
            "C09_minor_geo_elliptic",
            "C09_kepler_sat_geo",
            "C09_minor_geo_near_parabolic",
            "C09_near_parabolic_witness",
            "C09_minor_helio",
            "C09_kepler_sat_helio",
            "C09_minor_elongation",
            "C09_minor_direction",
            "C09_pluto_geo",
            "C09_pluto_refuses"]
# C09_body_<Planet>_unconditional (coq/proofs/C09/C09_u_<Planet>.v): callee hypotheses discharged with the imported
# theorems of C07 (VSOP87) and C08 (nutation, obliquity, Sun).  U_QUICK: planets whose file is compiled in the quick
# tier; thorough compiles all seven.  proof_files(tier) extends THEOREMS accordingly (the driver reads THEOREMS after it).
U_QUICK = list(PLANETS)
BASE_THEOREMS = list(THEOREMS)
THEOREMS = BASE_THEOREMS + ["C09_body_%s_unconditional" % p for p in U_QUICK]
PROOF_TIMEOUT = {"quick": 2000, "thorough": 3000}
EXHAUSTIVE = False
MANIFEST = {
    "category": "proof",
    "text": "Real-number (ideal) instance only; C09_body_<Planet>_unconditional (7 planets): the VSOP87, Earth, nutation, obliquity and Sun callee hypotheses of the body theorems are discharged with the imported theorems of properties C07 and C08, the range assumptions (|T| <= 40, |beta|, |B| <= 25 deg) are derived, RA in [0,360), Dec in [-90,90], elongation in [0,180]; only Epoch.__isub__ = Epoch(j1) (calendar round trip, C02) remains a premise in the quick tier; in the THOROUGH tier C09_body_<Planet>_total discharges it too with C02's Epoch_sub_ideal (j1 = j - tau, tau the code's light time, 0 <= tau <= 1 d): no callee premise left. nothing is proved about binary64 rounding or about the headline tolerances (0.02 / 1e-4 degree agreement, Mercury/Venus maxima: searched). Proved about the GENERATED code, by call-by-value symbolic evaluation with callees blocked and given as hypotheses ONLY at the arguments really passed (PARTIAL CORRECTNESS: conditional on those callees returning values of the stated shape): the whole body of each of the seven <Planet>.geocentric_position (planet at epoch and epoch - tau, Earth at the caller's epoch, lambda/beta by atan2, aberration k = 20.49552 with the e/pi polynomials, FK5, nutation, ecliptical2equatorial NOT abstracted (C05 closed form) so RA/Dec are the rotation of (LAMG, BETG) by the true obliquity, elongation acos(cos B cos(L - Lsun)) with the Sun provably taken at the shifted epoch = known finding), under |T| <= 40 cy, |beta| <= 25 deg, |B| <= 25 deg assumed of the callee outputs; Minor.geocentric_position for e < 0.98 (kepler_equation hypotheses at the two mean anomalies used, shown satisfiable from C11's characterisation for 0 <= e < 1) and for 0.98 <= e, |e-1| >= tol (conditional on the two _near_parabolic calls returning - they may raise: known finding); Minor.heliocentric_ecliptical_position; Minor.set; Pluto.geocentric_position (year gate, two passes; Pluto.geometric_heliocentric_position abstracted). The closed forms are tied to spec theorems: direction of the vector, LAMG/BETG = geometric direction + corrections (mod 360) with corrections <= 0.02 deg (nutation bound assumed), elongation in [0,180], Cauchy-Schwarz for the minor-body elongation. JDE2000 = 2451545 proved. Not covered by proof: the parabolic branch (loop), the Pluto series, satisfiability of the VSOP/nutation/Sun callee hypotheses. Bit-exact correspondence on planet/Pluto/Minor calls; search oracle recomputing every direction from the library's own heliocentric vectors (planets), the re-evaluated Meeus series (Pluto) and an independent two-body propagation (minor bodies, incl. a fixed grid of exactly parabolic bodies).",
    "technique": "call-by-value symbolic evaluation (pyrun9) of the regenerated model in the real-number instance with blocked callees + real analysis (atan2/acos lemmas, Cauchy-Schwarz, interval) + bit-exact differential correspondence + oracle search",
    "design_ref": "8/C09",
}
EXPLANATION = ("Ideal (real-number) instance, partial correctness with abstracted callees. Each of the seven generated geocentric_position "
               "bodies is evaluated symbolically, whole, with its callees given as hypotheses at the arguments really passed "
               "(C09_body_<Planet>): the result is (RAG, DECG, ELONG), closed forms (C09_body.v) proved to be the rotation by the obliquity of "
               "(LAMG, BETG) = direction of planet(epoch - tau) - Earth(epoch) plus aberration/FK5/nutation terms bounded by 0.02 degree "
               "(mod 360), and the elongation acos(cos B cos(L - Lsun)) in [0,180] with the Sun at the shifted epoch. Minor.set, "
               "Minor.geocentric_position (elliptic: kepler hypotheses shown satisfiable; near-parabolic: conditional on _near_parabolic "
               "returning), Minor.heliocentric_ecliptical_position and Pluto.geocentric_position are evaluated the same way. The parabolic loop, "
               "the Pluto series, and the numerical agreement (0.02 / 1e-4 degree) with vectors recomputed from the library are searched, not proved.")
CLAUSES = {
    "planets, NO callee premise (all 7; ideal instance; THOROUGH TIER ONLY)": "proved [C09_body_<Planet>_total, files C09_t_*.v, thorough tier only because the imported C02_ctor_ideal.v costs 5-6 min per build directory]: for every epoch j from one day after the start of year -2000 to year 6000, with tau = 0.0057755183 |planet(j) - Earth(j)| the light time the code computes and j1 = j - tau (0 <= tau <= 1 day from the distance envelope Delta <= 2 (r + r0)), Epoch.__isub__(Epoch(j), tau) = Epoch(j1) is proved with property C02's Epoch_sub_ideal (the Epoch constructor's calendar round trip is exact over the reals), every other callee as in C09_body_<Planet>_unconditional: geocentric_position(j) = (RAG, DECG, ELONG) with 0 <= RA < 360, -90 <= Dec <= 90, 0 <= elongation <= 180 and no hypothesis other than the range of j. The quick tier keeps C09_body_<Planet>_unconditional, whose single explicit premise is that Epoch.__isub__ equation",
    "planets, callee hypotheses discharged (all 7; ideal instance; epochs j, j1 in years -2000..6000)": "proved [C09_body_<Planet>_unconditional, files C09_u_*.v generated from one template]: with property C07's theorems (VSOP87 evaluator = direct sum over the regenerated tables, amplitude envelopes of the B and R series checked by the kernel) and property C08's (nutation series structure and amplitude, true obliquity = mean + nutation, Sun.apparent_geocentric_position = Earth reflected) imported into this build, the planet at j and j1, the Earth at j, nutation / true obliquity / Sun at j1 are SHOWN to return the shapes assumed by C09_body_<Planet>, with |T| <= 40, |heliocentric latitude| <= 25 deg and |geocentric latitude betG| <= 25 deg DERIVED (amplitude sums + separation of the orbits: projected distance >= |r cos b - r0 cos b0|), |dpsi| <= 21 arcsec, 22 < obliquity < 25 deg; conclusion: geocentric_position(j) = (RAG, DECG, ELONG) closed forms with 0 <= RA < 360, -90 <= Dec <= 90, 0 <= elongation <= 180. ONE premise about a callee is left: Epoch.__isub__(Epoch(j), tau) = Epoch(j1) - the Epoch constructor recomputes the JDE through the calendar (get_full_date, _compute_jde), whose round trip over the reals belongs to property C02 and is proved nowhere; j1 is otherwise arbitrary in the year range. Nothing about binary64 rounding",
    "planets (all 7 generated bodies, whole function; PARTIAL CORRECTNESS, ideal instance): IF planet(j), planet(j1), Earth(j), Epoch.__isub__(j, tau)=j1, nutation(j1), obliquity(j1), Sun(j1) return values of the stated shape, with tau = 0.0057755183*|planet(j) - Earth(j)|, and |T(j1)| <= 40 cy, |beta| <= 25 deg, |B(j1)| <= 25 deg, THEN the body returns (RAG, DECG, ELONG): lambda = atan2(y,x), beta = atan2(z, sqrt(x^2+y^2)) of planet(j1) - Earth(j), aberration k = 20.49552 with the e, pi polynomials, FK5, nutation, ecliptical2equatorial (closed form, not abstracted), elongation acos(cos B cos(L - Lsun(j1)))": "proved [ideal, generated code, callees abstracted at the used arguments only: C09_body_<Planet>]; satisfiability of the VSOP87/nutation/Sun callee hypotheses NOT proved (shapes observed bit-exactly in correspondence)",
    "planets: lambda, beta of the generated body are the direction of (x,y,z) (atan2 quadrants), x or y nonzero": "proved [generated closed forms -> spec: C09_body_direction]",
    "planets: LAMG/BETG handed to ecliptical2equatorial = geometric (lambda, beta) in degrees + (aberration + FK5 + nutation) up to whole turns": "proved [generated closed forms: C09_body_LAMG_BETG]",
    "planets: that sum of corrections <= 0.02 deg for |beta|, |B| <= 25 deg, |T| <= 40 cy, and |dpsi| <= 19.03 arcsec ASSUMED (nutation series not bounded here)": "proved [generated closed forms -> spec: C09_body_corrections]",
    "planets: returned RA/Dec = rotation about x by the true obliquity of the unit vector (LAMG, BETG), RA in [0,360), Dec in [-90,90], for |BETG| < 90": "proved [generated closed forms + C05 closed form of ecliptical2equatorial: C09_body_radec]",
    "planets: returned elongation lies in [0,180] and is acos(cos B cos(L - Lsun))": "proved [generated closed forms -> spec: C09_body_elongation]",
    "planets: Sun/nutation/obliquity evaluated at epoch - tau (not the epoch of observation)": "refuted for the property text: C09_body_<Planet> shows the generated body passes the shifted epoch j1 to Sun.apparent_geocentric_position; known finding elongation-sun-at-light-time-epoch with envelope |dev| <= min(0.21, 1.1*tau + 0.012) deg (beyond: key ...-gross = violation); the formula itself is checked against the Sun at epoch - tau under key elongation-formula",
    "caller's Epoch not shifted": "unproved (searched): a value-semantic model cannot observe aliasing; the oracle compares jde before/after every call (key epoch-shifted). C09_body_<Planet> only shows that the Earth is requested at the caller's value j and the shifted value is the one returned by Epoch.__isub__",
    "planets: agreement to 0.02 deg with the direction recomputed from the library's heliocentric vectors, epochs -2000..4000": "unproved (searched)",
    "auxiliary (tighter than the property text): returned place within 0.002 deg of the apparent place rebuilt with independently written aberration/FK5 formulas and the library's nutation": "unproved (searched), key planet-apparent-place",
    "Mercury <= 28.5 deg, Venus <= 48 deg": "unproved (searched)",
    "Pluto.geocentric_position body (PARTIAL CORRECTNESS, ideal): IF Epoch.year(j) = yv in [1885, 2100), Pluto.geometric_heliocentric_position at j and at j1 = Epoch.__sub__(j, tau), Sun.rectangular_coordinates_j2000(j) return, delta <> 0, THEN ra = atan2(eta, xi) in [0,360), dec = asin(zeta/delta) of Pluto(j1) + Sun(j); ValueError for yv outside": "proved [ideal, generated code, callees abstracted at the used arguments: C09_pluto_geo, C09_pluto_refuses]; closed form only, no tie to a direction lemma",
    "Pluto.geometric_heliocentric_position (43-term series)": "unproved (searched): series of Meeus ch.37 re-evaluated independently with the module's tables (key pluto-heliocentric-series) + bit-exact correspondence",
    "Pluto 1885-2099 direction to 1e-4 deg": "unproved (searched) over the full documented range [1885-01-01.0, 2100-01-01.0) incl. both edges every run (1885-01-01.0, +0.1, +0.3, +1 d, 2099-01-01, 2099-06-15, 2099-12-31.9; 2100-01-01.0 and 1884-12-31.9 must raise ValueError); refused inside the range: known finding pluto-first-hours-of-1885-refused (query epoch within 0.35 d after 1885-01-01.0: the light-time-shifted inner call falls below 1885.0), any other refusal inside the range: pluto-refused-in-range",
    "Minor.set: Gauss constants a,b,c,A,B,C closed forms; a = |q/(1-e)| (q > 0, e < 1 - tol) or q (q > 0, |e-1| <= tol); n = 0.9856076686/(a sqrt a)": "proved [ideal, generated code, any orientation]",
    "Minor: the Gauss constants rotate (r, u) into equatorial J2000 x,y,z (Rx(eps) Rz(Omega) Rx(i))": "proved [spec, used by the generated closed forms: gauss_xyz]",
    "Minor.geocentric_position, e < 0.98 (ideal): IF kepler_equation returns (E, v), |E| < 360, at the two mean anomalies the body passes, Sun.rectangular_coordinates_j2000(j) returns, |g||s| <> 0, THEN r = a(1 - e cos E), two light-time passes, ra/dec/psi = raM/decM/psiM": "proved [ideal, generated code: C09_minor_geo_elliptic]; the kepler hypotheses are satisfiable by the model for 0 <= e < 1: C09_kepler_sat_geo (from C11's characterisation)",
    "Minor.geocentric_position, 0.98 <= e, |e-1| >= tol (PARTIAL CORRECTNESS): IF the two _near_parabolic calls (t - T, t - T - tau) return (v, r) THEN same two passes and direction stage": "proved [ideal, generated code: C09_minor_geo_near_parabolic]; the hypotheses are NOT always satisfiable (known finding minor-near-parabolic-no-convergence); shape witness at t = 0: C09_near_parabolic_witness",
    "Minor: ra, dec are the direction of body(t - tau) + Sun(t); psi in [0,180], cos psi = <g,s>/(|g||s|), acos argument in [-1,1] (Cauchy-Schwarz)": "proved [generated closed forms -> spec: C09_minor_direction, C09_minor_elongation]",
    "Minor.geocentric_position, regime |e-1| < tol (parabolic): Barker iteration": "unproved (searched): data-dependent while loop; a fixed grid + sample of exactly parabolic bodies (e = 1.0, q 0.1-1.5, +-30 d) against the two-body propagation at 1e-4 deg in every quick run (keys minor-parabolic-no-light-time / minor-direction)",
    "Minor.heliocentric_ecliptical_position closed form, IF kepler_equation returns at the mean anomaly passed": "proved [ideal, generated code: C09_minor_helio]; satisfiable for 0 <= e < 1: C09_kepler_sat_helio",
    "Minor: continuity across the switch points e = 0.98, e = 1": "unproved (searched): same body at e = 0.98 -1e-9/+0/+1e-9 and 1 -1e-9/-2e-10/-1e-10/1.0 against one independent two-body propagation (1e-4 deg), _near_parabolic (v, r) to 1e-6",
    "Minor: direction to 1e-4 deg of an independent two-body propagation, q 0.1-30, e 0..1, +-50 yr; elongation to 0.02 deg": "unproved (searched)",
    "Minor: _near_parabolic converges": "refuted by search for 0.98 <= e < ~0.9975 far from perihelion: known finding minor-near-parabolic-no-convergence (ValueError('No convergence') with 0.98 <= e < 1 - tol only); envelope of the key: x = (1 - e)(|t - T|/q^1.5)^(2/3) >= 6.5 and 0.98 <= e < 1 - 1e-10 (measured: every failure has x >= 6.92 and e <= 0.998, every call with x <= 6.9 converges, 11 % of uniform samples over +-50 y fail); a No convergence outside that region is reported as minor-near-parabolic-no-convergence-gross; a fixed far-from-perihelion grid (8 eccentricities x 5 perihelion distances x +-3..49.9 years) is evaluated every run",
    "[spec] C09_final_stage_direction, C09_elongation_range, C09_elongation_cos, C09_corrections_small": "proved [spec]; bridged to the generated closed forms by C09_body_direction / _elongation / _corrections",
}


C07_DEPS = ["C07_defs.v", "C07_lib.v", "C07_angle.v", "C07_sec_a.v", "C07_sec_b.v", "C07_sec_c.v", "C07_sec.v",
            "C07_series.v", "C07_corr.v", "C07_mono.v", "C07_dec.v", "C07_mono_code.v", "C07_mono_earth.v"]
C08_DEPS = ["C08_base.v", "C08_obliquity.v", "C08_sun.v", "C08_angle2.v", "C08_node.v", "C08_nut_angle.v",
            "C08_nut_loop.v", "C08_nut_main.v", "C08_nut_bound.v", "C08_wide.v", "C08_app.v"]


def proof_files(tier):
    global THEOREMS
    upl = list(PLANETS) if tier == "thorough" else list(U_QUICK)
    THEOREMS = BASE_THEOREMS + ["C09_body_%s_unconditional" % p for p in upl]
    total = []
    if tier == "thorough":
        # C09_body_<Planet>_total: no callee premise at all (Epoch.__isub__ discharged with C02's Epoch_sub_ideal).
        # Thorough only: C02_ctor_ideal.v costs 5-6 min on one core + 16 shards of ~1 min per build directory.
        THEOREMS = THEOREMS + ["C09_body_%s_total" % p for p in PLANETS]
        total = (["../C02/C02_ctor_spec.v"] + ["../C02/C02_ctor_rt_%02d.v" % k for k in range(16)]
                 + ["../C02/C02_ctor_ideal.v", "C09_t_body.v"] + ["C09_t_%s.v" % p for p in PLANETS])
    return (["C09_spec.v", "C09_minor.v", "C09_A_defs.v", "C09_A_tac.v", "C09_A_reduce.v", "C09_A_construct.v",
             "C09_A_ops.v", "C09_angle.v", "C09_geo.v", "C09_tac.v", "C09_E_angle.v", "C09_E_run.v", "C09_E_ecl.v",
             "C09_body.v", "C09_J_tac.v", "C09_J_jde.v",
             "C09_K_tac.v", "C09_K_loop.v", "C09_K_kepdefs.v", "C09_K_keppaths.v", "C09_K_kepler.v"]
            + ["C09_pl_%s.v" % p for p in PLANETS]
            + ["C09_planets.v"] + ["C09_b_%s.v" % p for p in PLANETS]
            + ["C09_mbody.v", "C09_mgeo.v", "C09_mnp.v", "C09_pluto.v", "C09.v"]
            # imported proof files of C07 / C08 (compiled inside this property's build) and the unconditional statements
            + ["../C07/" + f for f in C07_DEPS] + ["../C07/C07_mono_%s.v" % p.lower() for p in upl]
            + ["../C08/" + f for f in C08_DEPS]
            + ["C09_u_vsop.v", "C09_u_geo.v", "C09_u_body.v"] + ["C09_u_%s.v" % p for p in upl]
            + total)


# ----------------------------------------------------------------------------------------------
# reference computations (independent of the functions under test)

KGAUSS = 0.01720209895
LIGHT = 0.0057755183            # days per AU
EPS2000 = math.radians(23.4392911)
TOL_PLANET = 0.02
TOL_J2000 = 1e-4
APP_TOL = 0.002
JMIN, JMAX = 990575.5, 3182395.5     # -2000-01-01 .. 4000-12-31


def unit(lon, lat):
    return (math.cos(lat) * math.cos(lon), math.cos(lat) * math.sin(lon), math.sin(lat))


def vsep(a, b):
    """angle in degrees between two vectors (atan2 form, good at 0 and 180)"""
    cr = (a[1] * b[2] - a[2] * b[1], a[2] * b[0] - a[0] * b[2], a[0] * b[1] - a[1] * b[0])
    return math.degrees(math.atan2(math.sqrt(sum(c * c for c in cr)), sum(x * y for x, y in zip(a, b))))


def ecl2equ(v, eps):
    ce, se = math.cos(eps), math.sin(eps)
    return (v[0], v[1] * ce - v[2] * se, v[1] * se + v[2] * ce)


class Impl:
    def __init__(self):
        m = load(MODULES)
        self.m = m
        self.Epoch = m["Epoch"].Epoch
        self.Angle = m["Angle"].Angle
        self.Earth = m["Earth"].Earth
        self.Sun = m["Sun"].Sun
        self.Pluto = m["Pluto"].Pluto
        self.Minor = m["Minor"].Minor
        self.true_obliquity = m["Coordinates"].true_obliquity
        self.planet = {p: getattr(m[p], p) for p in PLANETS}


def planet_reference(I, name, jde):
    """direction of planet(jde - tau) - Earth(jde) from the library's own heliocentric positions
    (ecliptic of date), tau iterated; returns (unit vector ecliptic, tau, delta)"""
    P = I.planet[name]
    l0, b0, r0 = I.Earth.geometric_heliocentric_position(I.Epoch(jde), tofk5=False)
    e = [r0 * c for c in unit(l0.rad(), b0.rad())]
    tau, delta = 0.0, 0.0
    for _ in range(4):
        l, b, r = P.geometric_heliocentric_position(I.Epoch(jde - tau), tofk5=False)
        p = [r * c for c in unit(l.rad(), b.rad())]
        v = [p[i] - e[i] for i in range(3)]
        delta = math.sqrt(sum(c * c for c in v))
        tau = LIGHT * delta
    return [c / delta for c in v], tau, delta, l0.rad()


def check_planet(I, name, jde):
    """returns list of (key, what)"""
    out = []
    ep = I.Epoch(jde)
    j0 = ep.jde()
    try:
        ra, dec, elon = I.planet[name].geocentric_position(ep)
    except Exception as ex:
        return [("planet-raises", "%s.geocentric_position(Epoch(%r)) raises %r" % (name, jde, ex))]
    if ep.jde() != j0:
        out.append(("epoch-shifted", "%s.geocentric_position changed the caller's Epoch from %r to %r" % (name, j0, ep.jde())))
    u, tau, delta, l0r = planet_reference(I, name, jde)
    eps = I.true_obliquity(I.Epoch(jde)).rad()
    ref_eq = ecl2equ(u, eps)
    got = unit(ra.rad(), dec.rad())
    s = vsep(got, ref_eq)
    if not s <= TOL_PLANET:
        out.append(("planet-direction", "%s at JDE %r: returned ra=%.6f dec=%.6f is %.5f deg (> %.2f) from the vector Earth(t) -> %s(t - %.5f d) of the library (ra=%.6f dec=%.6f)"
                    % (name, jde, float(ra), float(dec), s, TOL_PLANET, name, tau,
                       math.degrees(math.atan2(ref_eq[1], ref_eq[0])) % 360, math.degrees(math.asin(max(-1, min(1, ref_eq[2])))))))
    # auxiliary, tighter than the property: the apparent place rebuilt with independently written
    # aberration (Meeus 23.2), FK5 (32.3) and the library's nutation must agree to 0.002 deg
    lam, beta = math.atan2(u[1], u[0]), math.asin(max(-1.0, min(1.0, u[2])))
    t = (jde - tau - 2451545.0) / 36525.0
    ecc = 0.016708634 + t * (-0.000042037 - t * 0.0000001267)
    pie = math.radians(102.93735 + t * (1.71946 + t * 0.00046))
    lsun = l0r + math.pi
    dl = 20.49552 * (-math.cos(lsun - lam) + ecc * math.cos(pie - lam)) / math.cos(beta)
    db = -20.49552 * math.sin(beta) * (math.sin(lsun - lam) - ecc * math.sin(pie - lam))
    lp = lam - math.radians(t * (1.397 + t * 0.00031))
    dl += -0.09033 + 0.03916 * (math.cos(lp) + math.sin(lp)) * math.tan(beta)
    db += 0.03916 * (math.cos(lp) - math.sin(lp))
    dpsi = float(I.m["Coordinates"].nutation_longitude(I.Epoch(jde)))
    app = ecl2equ(unit(lam + math.radians(dl / 3600.0 + dpsi), beta + math.radians(db / 3600.0)), eps)
    s2 = vsep(got, app)
    if not s2 <= APP_TOL:
        out.append(("planet-apparent-place", "%s at JDE %r: returned ra=%.6f dec=%.6f is %.5f deg (> 0.002) from the apparent place rebuilt from the library's heliocentric vectors (light-time %.5f d) with aberration, FK5 and nutation applied independently"
                    % (name, jde, float(ra), float(dec), s2, tau)))
    el = float(elon)
    if not (0.0 <= el <= 180.0):
        out.append(("elongation-range", "%s at JDE %r: elongation %r outside [0, 180]" % (name, jde, el)))
    lim = {"Mercury": 28.5, "Venus": 48.0}.get(name)
    if lim is not None and not el <= lim:
        out.append(("elongation-max-" + name, "%s at JDE %r: elongation %r > %r" % (name, jde, el, lim)))
    # honest clause: Sun's apparent direction at the epoch of observation
    ls, bs, rs = I.Sun.apparent_geocentric_position(I.Epoch(jde))
    want = vsep(u, unit(ls.rad(), bs.rad()))
    if not abs(el - want) <= TOL_PLANET:
        # envelope of the known finding: the Sun moves <= 1.02 deg/day, so taking it at epoch - tau shifts the
        # elongation by at most 1.1*tau degrees; + 0.012 deg for the aberration/nutation difference between the
        # geometric reference direction and the apparent place (measured max of (dev - 0.012)/tau: 0.996); cap 0.21
        env = min(0.21, 1.1 * tau + 0.012)
        out.append(("elongation-sun-at-light-time-epoch" if abs(el - want) <= env else "elongation-sun-at-light-time-epoch-gross",
                    "%s at JDE %r: elongation %.5f, angle between the direction and the Sun's apparent direction at the same epoch %.5f (diff %.5f > 0.02); light-time %.4f d"
                    % (name, jde, el, want, el - want, tau)))
    # the formula itself: against the Sun at epoch - tau (where the code takes it), apparent vs apparent
    ls2, bs2, rs2 = I.Sun.apparent_geocentric_position(I.Epoch(jde - tau))
    eps2 = I.true_obliquity(I.Epoch(jde - tau)).rad()
    want2 = vsep(got, ecl2equ(unit(ls2.rad(), bs2.rad()), eps2))
    if not abs(el - want2) <= TOL_PLANET:
        out.append(("elongation-formula", "%s at JDE %r: elongation %.5f, angle between the returned direction and the Sun at epoch - light-time %.5f (diff %.5f > 0.02)"
                    % (name, jde, el, want2, el - want2)))
    return out


# --- Pluto

def pluto_series(I, jde):
    """the series of Meeus ch. 37 evaluated independently of Pluto.geometric_heliocentric_position
    (tables read from the module)"""
    M = I.m["Pluto"]
    t = (jde - 2451545.0) / 36525.0
    jj, ss, pp = 34.35 + 3034.9057 * t, 50.08 + 1222.1138 * t, 238.96 + 144.96 * t
    sl = sb = sr = 0.0
    for (i, j, k), (al, bl), (ab, bb), (ar, br) in zip(M.PLUTO_ARGUMENT, M.PLUTO_LONGITUDE, M.PLUTO_LATITUDE, M.PLUTO_RADIUS_VECTOR):
        a = math.radians(i * jj + j * ss + k * pp)
        sa, ca = math.sin(a), math.cos(a)
        sl += al * sa + bl * ca; sb += ab * sa + bb * ca; sr += ar * sa + br * ca
    return 238.958116 + 144.96 * t + sl * 1e-6, -3.908239 + sb * 1e-6, 40.7241346 + sr * 1e-7


def check_pluto(I, jde):
    out = []
    ep = I.Epoch(jde); j0 = ep.jde()
    inside = J1885 <= jde < J2100
    try:
        ra, dec = I.Pluto.geocentric_position(ep)
    except ValueError as ex:
        if "outside the 1885-2099 range" in str(ex):
            if not inside: return []                    # documented refusal
            if jde < J1885 + 0.35:                      # known finding: the light-time-shifted inner call falls below 1885.0
                return [("pluto-first-hours-of-1885-refused", "Pluto.geocentric_position(Epoch(%r)) (%.3f d after 1885-01-01.0) raises %r" % (jde, jde - J1885, ex))]
            return [("pluto-refused-in-range", "Pluto.geocentric_position(Epoch(%r)) raises %r although the epoch is inside [1885-01-01.0, 2100-01-01.0)" % (jde, ex))]
        return [("pluto-raises", "Pluto at JDE %r raises %r" % (jde, ex))]
    except Exception as ex:
        return [("pluto-raises", "Pluto at JDE %r raises %r" % (jde, ex))]
    if not inside:
        return [("pluto-not-refused", "Pluto.geocentric_position(Epoch(%r)) returns a position although the epoch is outside [1885-01-01.0, 2100-01-01.0)" % jde)]
    try:
        l, b, r = I.Pluto.geometric_heliocentric_position(I.Epoch(jde))
    except Exception as ex:
        return [("pluto-refused-in-range", "Pluto.geometric_heliocentric_position(Epoch(%r)) raises %r inside the range" % (jde, ex))]
    if ep.jde() != j0:
        out.append(("epoch-shifted", "Pluto.geocentric_position changed the caller's Epoch"))
    wl, wb, wr = pluto_series(I, jde)
    d = vsep(unit(l.rad(), b.rad()), unit(math.radians(wl), math.radians(wb)))
    if not (d <= 1e-6 and abs(r - wr) <= 1e-8):
        out.append(("pluto-heliocentric-series", "Pluto.geometric_heliocentric_position(JDE %r) = (%.7f, %.7f, %.8f), series of Meeus ch.37 with the module's tables gives (%.7f, %.7f, %.8f)"
                    % (jde, float(l), float(b), r, wl % 360, wb, wr)))
    xs, ys, zs = I.Sun.rectangular_coordinates_j2000(I.Epoch(jde))
    tau = 0.0
    for _ in range(4):
        l, b, r = I.Pluto.geometric_heliocentric_position(I.Epoch(jde - tau))
        p = ecl2equ([r * c for c in unit(l.rad(), b.rad())], EPS2000)
        v = (p[0] + xs, p[1] + ys, p[2] + zs)
        tau = LIGHT * math.sqrt(sum(c * c for c in v))
    s = vsep(unit(ra.rad(), dec.rad()), v)
    if not s <= TOL_J2000:
        out.append(("pluto-direction", "Pluto at JDE %r: returned ra=%.6f dec=%.6f is %.6f deg (> 1e-4) from the vector Earth(t) -> Pluto(t - %.4f d) of the library"
                    % (jde, float(ra), float(dec), s, tau)))
    if not 0.0 <= float(ra) < 360.0:
        out.append(("pluto-ra-range", "Pluto at JDE %r: ra %r" % (jde, float(ra))))
    return out


# known finding minor-near-parabolic-no-convergence, envelope: the series of Minor._near_parabolic stops converging
# when x = (1 - e) * (|t - T| / q^1.5)^(2/3) is large (t - T in days, q in AU).  Measured on the unchanged tree
# (20000 samples, 0.98 <= e < 1, q in 0.1..30, |t - T| <= 50 y): every 'No convergence' has x >= 6.92 and
# e <= 0.998, every x <= 6.9 converges (converging calls reach x = 7.38); 11 % of those samples fail.
# A 'No convergence' with x < 6.5 (or outside 0.98 <= e < 1 - 1e-10) is NOT the known finding: key ...-gross.
NP_X_MIN = 6.5


def np_x(q, e, dt):
    return (1.0 - e) * (abs(dt) / q ** 1.5) ** (2.0 / 3.0)


def np_key(q, e, dt):
    if 0.98 <= e < 1.0 - 1e-10 and np_x(q, e, dt) >= NP_X_MIN:
        return "minor-near-parabolic-no-convergence"
    return "minor-near-parabolic-no-convergence-gross"


# --- minor bodies: independent two-body propagation (universal variable, any e)

def _stumpff(z):
    if z > 1e-6:
        s = math.sqrt(z); return (1 - math.cos(s)) / z, (s - math.sin(s)) / (s * z)
    if z < -1e-6:
        s = math.sqrt(-z); return (math.cosh(s) - 1) / (-z), (math.sinh(s) - s) / (s * -z)
    return 0.5 - z / 24 + z * z / 720, 1 / 6 - z / 120 + z * z / 5040


def two_body(q, e, dt):
    """perifocal position (x, y) at dt days after perihelion"""
    alpha = (1.0 - e) / q
    f = lambda x: q * x + (1 - alpha * q) * x ** 3 * _stumpff(alpha * x * x)[1] - KGAUSS * dt
    lo, hi = -1.0, 1.0
    while f(lo) > 0: lo *= 2
    while f(hi) < 0: hi *= 2
    for _ in range(200):
        mid = 0.5 * (lo + hi)
        if f(mid) > 0: hi = mid
        else: lo = mid
    x = 0.5 * (lo + hi)
    c, s = _stumpff(alpha * x * x)
    ff = 1 - x * x / q * c
    gg = dt - x ** 3 / KGAUSS * s
    return ff * q, gg * KGAUSS * math.sqrt((1 + e) / q)


def minor_helio_ecl(q, e, inc, om, w, dt):
    px, py = two_body(q, e, dt)
    cw, sw, ci, si, co, so = math.cos(w), math.sin(w), math.cos(inc), math.sin(inc), math.cos(om), math.sin(om)
    x1, y1 = cw * px - sw * py, sw * px + cw * py
    return (co * x1 - so * ci * y1, so * x1 + co * ci * y1, si * y1), math.hypot(px, py), math.atan2(py, px)


def minor_reference(I, el, jde):
    q, e, inc, om, w, tp = el
    xs, ys, zs = I.Sun.rectangular_coordinates_j2000(I.Epoch(jde))
    tau, d0 = 0.0, None
    for _ in range(5):
        p, r, v = minor_helio_ecl(q, e, math.radians(inc), math.radians(om), math.radians(w), jde - tau - tp)
        p = ecl2equ(p, EPS2000)
        g = (p[0] + xs, p[1] + ys, p[2] + zs)
        d = math.sqrt(sum(c * c for c in g))
        if d0 is None: d0 = d
        tau = LIGHT * d
    return g, (xs, ys, zs), d0, d, tau


def mk_minor(I, el):
    q, e, inc, om, w, tp = el
    return I.Minor(q, e, I.Angle(inc), I.Angle(om), I.Angle(w), I.Epoch(tp))


def check_minor(I, el, jde, stats):
    out = []
    q, e, inc, om, w, tp = el
    tag = "Minor(q=%r, e=%r, i=%r, Om=%r, w=%r, T=%r) at JDE %r" % (q, e, inc, om, w, tp, jde)
    g, sv, d0, d, tau = minor_reference(I, el, jde)
    want_el = vsep(g, sv)
    ep = I.Epoch(jde); j0 = ep.jde()
    try:
        mb = mk_minor(I, el)
        ra, dec, psi = mb.geocentric_position(ep)
    except ValueError as ex:
        if "No convergence" in str(ex):
            stats["no_convergence"] = stats.get("no_convergence", 0) + 1     # known finding: _near_parabolic far from perihelion
            stats["no_convergence_min_x"] = min(stats.get("no_convergence_min_x", 1e9), np_x(q, e, jde - tp))
            return [(np_key(q, e, jde - tp), "%s: ValueError('No convergence') from _near_parabolic (%.1f d from perihelion, x = (1-e)(|t-T|/q^1.5)^(2/3) = %.3f; two-body position ra=%.5f dec=%.5f)"
                     % (tag, jde - tp, np_x(q, e, jde - tp), math.degrees(math.atan2(g[1], g[0])) % 360, math.degrees(math.atan2(g[2], math.hypot(g[0], g[1])))))]
        if "math domain" in str(ex) and abs(math.cos(math.radians(want_el)) * d / d0) > 1 - 1e-9:
            return [("minor-elongation-stale-delta", "%s: raises ValueError(math domain error): acos argument (xi.xs)/(r_sun*delta) uses the first-pass delta=%.9f with second-pass xi (|xi|=%.9f), elongation %.4f"
                     % (tag, d0, d, want_el))]
        return [("minor-raises", "%s raises %r" % (tag, ex))]
    except Exception as ex:
        return [("minor-raises", "%s raises %r" % (tag, ex))]
    if ep.jde() != j0:
        out.append(("epoch-shifted", "Minor.geocentric_position changed the caller's Epoch"))
    s = vsep(unit(ra.rad(), dec.rad()), g)
    if not s <= TOL_J2000:
        par = abs(e - 1.0) < 1e-10
        out.append(("minor-parabolic-no-light-time" if par else "minor-direction",
                    "%s: returned ra=%.6f dec=%.6f is %.6f deg (> 1e-4) from the vector Earth(t) -> body(t - %.5f d) (two-body propagation: ra=%.6f dec=%.6f)"
                    % (tag, float(ra), float(dec), s, tau, math.degrees(math.atan2(g[1], g[0])),
                       math.degrees(math.atan2(g[2], math.hypot(g[0], g[1]))))))
    ps = float(psi)
    if not 0.0 <= ps <= 180.0:
        out.append(("elongation-range", "%s: elongation %r outside [0, 180]" % (tag, ps)))
    if not abs(ps - want_el) <= TOL_PLANET:
        # what the formula gives with the first-pass delta
        c = math.cos(math.radians(want_el)) * d / d0
        stale = math.degrees(math.acos(max(-1.0, min(1.0, c))))
        key = "minor-elongation-stale-delta" if abs(ps - stale) <= 0.5 * abs(ps - want_el) else "minor-elongation"
        out.append((key, "%s: elongation %.5f, angle between the direction and the Sun %.5f (diff %.5f > 0.02; first-pass delta %.7f vs %.7f)"
                    % (tag, ps, want_el, ps - want_el, d0, d)))
    return out


def check_minor_helio(I, el, jde):
    q, e, inc, om, w, tp = el
    tag = "Minor(q=%r, e=%r, i=%r, Om=%r, w=%r, T=%r)" % (q, e, inc, om, w, tp)
    try:
        lon, lat = mk_minor(I, el).heliocentric_ecliptical_position(I.Epoch(jde))
    except Exception as ex:
        return [("minor-raises", "%s.heliocentric_ecliptical_position(JDE %r) raises %r" % (tag, jde, ex))]
    p, r, v = minor_helio_ecl(q, e, math.radians(inc), math.radians(om), math.radians(w), jde - tp)
    s = vsep(unit(lon.rad(), lat.rad()), p)
    if not s <= TOL_J2000:
        return [("minor-heliocentric", "%s.heliocentric_ecliptical_position(JDE %r) = (%.6f, %.6f) is %.6f deg from the two-body position"
                 % (tag, jde, float(lon), float(lat), s))]
    return []


def check_near_parabolic(I, q, e, t, stats):
    """(v, r) of _near_parabolic against the two-body propagation"""
    el = (q, e, 0.0, 0.0, 0.0, 2451545.0)
    try:
        v, r = mk_minor(I, el)._near_parabolic(t)
    except ValueError as ex:
        if "No convergence" in str(ex):
            stats["no_convergence"] = stats.get("no_convergence", 0) + 1
            stats["no_convergence_min_x"] = min(stats.get("no_convergence_min_x", 1e9), np_x(q, e, t))
            return [(np_key(q, e, t), "Minor(q=%r,e=%r)._near_parabolic(%r) raises ValueError('No convergence'), x = (1-e)(|t|/q^1.5)^(2/3) = %.3f" % (q, e, t, np_x(q, e, t)))]
        return [("minor-raises", "Minor(q=%r,e=%r)._near_parabolic(%r) raises %r" % (q, e, t, ex))]
    except Exception as ex:
        return [("minor-raises", "Minor(q=%r,e=%r)._near_parabolic(%r) raises %r" % (q, e, t, ex))]
    px, py = two_body(q, e, t)
    wr, wv = math.hypot(px, py), math.degrees(math.atan2(py, px))
    dv = (float(v) - wv + 180.0) % 360.0 - 180.0
    if not (abs(r - wr) <= 1e-6 * wr and abs(dv) <= TOL_J2000):
        return [("minor-near-parabolic", "Minor(q=%r,e=%r)._near_parabolic(%r) = (v=%.7f, r=%.9f), two-body motion gives (v=%.7f, r=%.9f)"
                 % (q, e, t, float(v), r, wv % 360, wr))]
    return []


# ----------------------------------------------------------------------------------------------
# generators

def gen_jde(rng):
    k = rng.random()
    if k < 0.1: return rng.choice([JMIN, JMAX, 2451545.0, 2448976.5, 2299160.5, 1721057.5])
    return round(rng.uniform(JMIN, JMAX), 3)


J1885, J2100 = 2409542.5, 2488069.5      # 1885-01-01.0 and 2100-01-01.0: the documented range is [J1885, J2100)
PLUTO_EDGES = [J1885, J1885 + 0.1, J1885 + 0.3, J1885 + 1.0, 2487704.5, 2487869.5, J2100 - 0.1,   # inside (2099-01-01, 2099-06-15, 2099-12-31.9)
               J2100, J1885 - 0.1]                                                                 # outside: must raise ValueError


def gen_pluto_jde(rng):
    if rng.random() < 0.1: return rng.choice([2409547.5, 2487700.5, 2448908.5, 2451545.0])   # 1885-01-06, 2098-12-28, Meeus example
    return round(rng.uniform(J1885 + 0.4, J2100 - 0.001), 3)


E_SWITCH = [0.98 - 1e-9, 0.98, 0.98 + 1e-9, 1.0 - 1e-9, 1.0, 1.0 - 1e-10, 1.0 - 2e-10, 0.0, 0.5, 0.97, 0.99, 0.999, 0.9999]


def gen_minor(rng, e=None, near=False):
    q = round(math.exp(rng.uniform(math.log(0.1), math.log(30.0))), 6)
    if e is None:
        e = rng.choice(E_SWITCH) if rng.random() < 0.35 else round(rng.uniform(0.0, 1.0), 6)
    inc, om, w = round(rng.uniform(0, 180), 4), round(rng.uniform(0, 360), 4), round(rng.uniform(0, 360), 4)
    tp = round(2451545.0 + rng.uniform(-36525, 36525), 3)
    span = 50 * 365.25
    if e >= 0.98 and abs(e - 1.0) >= 1e-10:
        # the near-parabolic series is documented to converge only near perihelion: keep most samples there
        if rng.random() < 0.8: span = min(span, 40.0 * q ** 1.5 + 20.0)
    dt = round(rng.uniform(-span, span) * rng.random() ** 2, 3)
    return (float(q), float(e), float(inc), float(om), float(w), float(tp)), float(tp + dt)


def parabolic_bodies(rng, n):
    """exactly parabolic bodies (e == 1.0), q in 0.1..1.5 AU, epochs within +-30 d of perihelion: the
    only inputs that reach the Barker branch of Minor.geocentric_position; a fixed grid first, then random"""
    out = []
    fixed = [(0.1, 0.0, 0.0, 0.0, 3.0), (0.1, 0.0, 0.0, 0.0, -9.75), (0.3, 30.0, 40.0, 50.0, 3.0), (0.5, 120.0, 200.0, 310.0, -12.5),
             (1.0, 0.0, 0.0, 0.0, 10.0), (1.0, 60.0, 10.0, 95.0, -25.0), (1.5, 15.0, 300.0, 20.0, 28.0), (0.2, 170.0, 90.0, 180.0, 0.5)]
    for q, inc, om, w, dt in fixed[:n]:
        out.append(((q, 1.0, inc, om, w, 2450917.9358), 2450917.9358 + dt))
    while len(out) < n:
        q = round(math.exp(rng.uniform(math.log(0.1), math.log(1.5))), 6)
        tp = round(2451545.0 + rng.uniform(-36525, 36525), 3)
        out.append(((float(q), 1.0, round(rng.uniform(0, 180), 4), round(rng.uniform(0, 360), 4), round(rng.uniform(0, 360), 4), float(tp)),
                    float(tp + round(rng.uniform(-30, 30), 3))))
    return out


def far_grid():
    """deterministic corner of the property's quantifier that random sampling rarely hits: small perihelion
    distance, years to decades from perihelion, all three regimes (e = 1.0 exactly: the Barker iteration needs
    many steps there; near-parabolic; elliptic).  Orientation varies deterministically with the grid point."""
    out = []
    T0 = 2451545.0
    k = 0
    for e, qs in ((1.0, (0.1, 0.12, 0.15, 0.2, 0.3, 1.0, 5.0, 30.0)),
                  (1.0 - 1e-9, (0.1, 0.15, 0.3)), (0.999, (0.1, 0.15, 0.3)), (0.98, (0.1, 0.15, 0.3)),
                  # between the parabolic switch (|e - 1| < 1e-10) and the published precision of elements: a body
                  # taken for a parabola here is off by an amount that grows with 1 - e and the time from perihelion
                  (1.0 - 1e-8, (0.1, 0.3)), (1.0 - 1e-7, (0.1, 0.3)), (1.0 - 9e-7, (0.1, 0.15, 0.3)),
                  (1.0 - 1e-5, (0.1, 0.3)), (1.0 - 1e-4, (0.1, 0.3)),
                  (0.98 - 1e-9, (0.1, 0.15, 0.3)), (0.9, (0.1, 0.15, 0.3)), (0.5, (0.1, 0.15, 0.3))):
        for q in qs:
            for yrs in (-49.9, -30.0, -10.0, -1.0, 1.0, 10.0, 30.0, 49.9):
                k += 1
                inc, om, w = (37.0 * k) % 180.0, (101.0 * k) % 360.0, (53.0 * k) % 360.0
                out.append(((q, e, inc, om, w, T0), T0 + round(yrs * 365.25, 2)))
    return out


ENCKE = (2.2091404 * (1.0 - 0.8502196), 0.8502196, 11.94524, 334.75006, 186.23352, 2448193.04502)
HALLEY = (0.5870992, 0.9672725, 162.23932, 58.14397, 111.84658, 2446470.95175)


def check_set_sequence(I, el1, el2, jde):
    """Minor(el1) followed by set(el2) must behave exactly like Minor(el2): set() has to refresh every
    derived constant (bit-for-bit comparison of geocentric_position / heliocentric_ecliptical_position)"""
    def run(body, meth):
        try:
            return tuple(float(x) for x in getattr(body, meth)(I.Epoch(jde)))
        except Exception as ex:
            return ("raises", type(ex).__name__)
    q, e, inc, om, w, tp = el2
    tag = "Minor(%s).set(%s) at JDE %r" % (", ".join(repr(x) for x in el1), ", ".join(repr(x) for x in el2), jde)
    try:
        body = mk_minor(I, el1)
        body.set(q, e, I.Angle(inc), I.Angle(om), I.Angle(w), I.Epoch(tp))
        fresh = mk_minor(I, el2)
    except Exception as ex:
        return [("minor-raises", "%s raises %r" % (tag, ex))]
    out = []
    for meth in ("geocentric_position", "heliocentric_ecliptical_position"):
        a, b = run(body, meth), run(fresh, meth)
        if a != b:
            out.append(("minor-set-stale-state", "%s: %s = %r after set(), but %r for a freshly constructed Minor with the same elements"
                        % (tag, meth, a, b)))
    return out


def minor_expr(el, jde, meth="geocentric_position"):
    q, e, inc, om, w, tp = el
    return "Minor(%r, %r, Angle(%r), Angle(%r), Angle(%r), Epoch(%r)).%s(Epoch(%r))" % (q, e, inc, om, w, tp, meth, jde)


def cases(rng, tier):
    quick = tier == "quick"
    cs = []
    if quick:
        # planet calls carry ~20k traced libm values each: three per quick run
        cs.append("%s.geocentric_position(Epoch(%r))" % (rng.choice(PLANETS), gen_jde(rng)))
    else:
        for p in PLANETS:
            for _ in range(3):
                cs.append("%s.geocentric_position(Epoch(%r))" % (p, gen_jde(rng)))
    cs.append("Venus.geocentric_position(Epoch(1992, 12, 20.0))")
    cs.append("Neptune.geocentric_position(Epoch(1992, 12, 20.0))")
    for _ in range(2 if quick else 40):
        cs.append("Pluto.geocentric_position(Epoch(%r))" % gen_pluto_jde(rng))
    for _ in range(1 if quick else 20):
        cs.append("Pluto.geometric_heliocentric_position(Epoch(%r))" % gen_pluto_jde(rng))
    cs += ["Pluto.geocentric_position(Epoch(1884, 6, 1.0))", "Pluto.geometric_heliocentric_position(Epoch(2100, 1, 1.0))",
           "Pluto.geocentric_position(Epoch(1992, 10, 13.0))", "Pluto.geocentric_position(2448908.5)",
           "Venus.geocentric_position(2451545.0)", "Minor(1.0, 0.5, 10.0, Angle(0.0), Angle(0.0), Epoch(2451545.0))",
           "Minor(1, 0.5, Angle(10.0), Angle(0.0), Angle(0.0), Epoch(2451545.0))"]
    for _ in range(24 if quick else 600):
        el, jde = gen_minor(rng)
        cs.append(minor_expr(el, jde))
    for el, jde in parabolic_bodies(rng, 4 if quick else 40):
        cs.append(minor_expr(el, jde))
    for _ in range(6 if quick else 150):
        el, jde = gen_minor(rng, e=round(rng.uniform(0, 0.97), 6))
        cs.append(minor_expr(el, jde, "heliocentric_ecliptical_position"))
    for _ in range(12 if quick else 250):
        q = round(math.exp(rng.uniform(math.log(0.1), math.log(30.0))), 6)
        e = rng.choice([0.98, 0.99, 0.999, 1.0 - 1e-9, 1.0, 1.0 - 1e-10, 1.00001, 1.05731, 0.9672746])
        t = rng.choice([0.0, 1e-11, -1e-11]) if rng.random() < 0.15 else round(rng.uniform(-1, 1) * (40.0 * q ** 1.5 + 20.0), 4)
        cs.append("Minor(%r, %r, Angle(0.0), Angle(0.0), Angle(0.0), Epoch(2451545.0))._near_parabolic(%r)" % (q, e, t))
    cs += ["Minor(0.5871018, 0.9672746, Angle(0.0), Angle(0.0), Angle(0.0), Epoch(2000, 1, 1.5))._near_parabolic(20.0)",
           "Minor(3.363943, 1.05731, Angle(0.0), Angle(0.0), Angle(0.0), Epoch(2000, 1, 1.5))._near_parabolic(1237.1)",
           "Minor(1.487469, 1.0, Angle(0.0), Angle(0.0), Angle(0.0), Epoch(1998, 4, 14.4358)).geocentric_position(Epoch(1998, 8, 5.0))",
           "Minor(2.2091404 * (1.0 - 0.8502196), 0.8502196, Angle(11.94524), Angle(334.75006), Angle(186.23352), Epoch(1990, 10, 28.54502)).geocentric_position(Epoch(1990, 10, 6.0))",
           "Minor(1.0, 1.0, Angle(0.0), Angle(0.0), Angle(0.0), Epoch(2451545.0))._near_parabolic(1)"]
    return cs


# ----------------------------------------------------------------------------------------------

REPLAY = "cd /verif && VERIF_REPO=${VERIF_REPO:-/repo} /venv/bin/python -m vlib.props.C09 %s"


def search(rng, tier, deep):
    I = Impl()
    full = deep or tier == "thorough"
    findings, n, nontriv = [], 0, 0
    stats_extra = {}
    per_key = {}

    def add(res, inp, replay_args):
        for key, what in res:
            per_key[key] = per_key.get(key, 0) + 1
            if per_key[key] <= 3:
                findings.append({"key": key, "what": what, "input": inp, "replay": REPLAY % replay_args})

    # planets
    npl = 40 if full else 8
    for p in PLANETS:
        js = [gen_jde(rng) for _ in range(npl)] + [2448976.5]
        if p in ("Mercury", "Venus") and full:
            js += [round(rng.uniform(JMIN, JMAX), 2) for _ in range(200)]
        for jde in js:
            n += 1; nontriv += 1
            add(check_planet(I, p, jde), [p, jde], "planet %s %r" % (p, jde))
    # Pluto
    for jde in PLUTO_EDGES + [gen_pluto_jde(rng) for _ in range(300 if full else 40)]:
        n += 1; nontriv += 1
        add(check_pluto(I, jde), ["Pluto", jde], "pluto %r" % jde)
    # minor bodies
    for _ in range(6000 if full else 700):
        el, jde = gen_minor(rng)
        n += 1; nontriv += 1
        add(check_minor(I, el, jde, stats_extra), ["Minor", list(el), jde], "minor %s %r" % (" ".join(repr(x) for x in el), jde))
    # always: exactly parabolic bodies near perihelion (the Barker branch is reached by e == 1.0 only)
    for el, jde in parabolic_bodies(rng, 400 if full else 40):
        n += 1; nontriv += 1
        add(check_minor(I, el, jde, stats_extra), ["Minor", list(el), jde], "minor %s %r" % (" ".join(repr(x) for x in el), jde))
    for _ in range(1500 if full else 150):
        el, jde = gen_minor(rng, e=round(rng.uniform(0, 0.97), 6))
        n += 1; nontriv += 1
        add(check_minor_helio(I, el, jde), ["Minor.helio", list(el), jde], "minorhelio %s %r" % (" ".join(repr(x) for x in el), jde))
    # continuity across the switch points: the same body with e just below / at / above
    for _ in range(400 if full else 60):
        el, jde = gen_minor(rng, e=0.98)
        dt = (jde - el[5])
        lim = 40.0 * el[0] ** 1.5 + 20.0
        if abs(dt) > lim: jde = el[5] + math.copysign(lim * rng.random(), dt)
        for e0 in (0.98, 1.0):
            if e0 == 1.0: lst = [1.0 - 1e-9, 1.0 - 2e-10, 1.0 - 1e-10, 1.0]
            else: lst = [0.98 - 1e-9, 0.98, 0.98 + 1e-9]
            for e in lst:
                el2 = (el[0], e) + el[2:]
                n += 1; nontriv += 1
                add(check_minor(I, el2, jde, stats_extra), ["Minor", list(el2), jde], "minor %s %r" % (" ".join(repr(x) for x in el2), jde))
    for _ in range(1500 if full else 200):
        q = round(math.exp(rng.uniform(math.log(0.1), math.log(30.0))), 6)
        e = rng.choice([0.98, 0.98 + 1e-9, 0.99, 0.999, 1.0 - 1e-9, 1.0 - 2e-10, 1.0, 1.0 - 5e-11])
        t = round(rng.uniform(-1, 1) * (40.0 * q ** 1.5 + 20.0), 4)
        n += 1; nontriv += 1
        add(check_near_parabolic(I, q, e, t, stats_extra), ["Minor._near_parabolic", q, e, t], "nearpar %r %r %r" % (q, e, t))
    # always: the far-from-perihelion region of the property's +-50 years (fixed grid, every run)
    for e in (0.98, 0.985, 0.99, 0.995, 0.998, 0.999, 0.9999, 1.0 - 1e-9):
        for q in (0.1, 0.5, 2.0, 8.0, 30.0):
            for yrs in (-49.9, -30.0, -10.0, 3.0, 20.0, 49.9):
                t = round(yrs * 365.25, 2)
                n += 1; nontriv += 1
                add(check_near_parabolic(I, q, e, t, stats_extra), ["Minor._near_parabolic", q, e, t], "nearpar %r %r %r" % (q, e, t))
    for _ in range(120 if full else 30):
        el, jde = gen_minor(rng, e=rng.choice([0.98, 0.99, 0.995, 0.999, 0.9999]))
        jde = el[5] + math.copysign(rng.uniform(5.0, 50.0) * 365.25, rng.random() - 0.5)
        n += 1; nontriv += 1
        add(check_minor(I, el, jde, stats_extra), ["Minor", list(el), jde], "minor %s %r" % (" ".join(repr(x) for x in el), jde))
    # always: small perihelion distance years to decades from perihelion, all regimes (fixed grid, every run)
    for el, jde in far_grid():
        n += 1; nontriv += 1
        add(check_minor(I, el, jde, stats_extra), ["Minor", list(el), jde], "minor %s %r" % (" ".join(repr(x) for x in el), jde))
    # call sequences: construct with one orbit, set() another; must equal a fresh object (bit for bit)
    pairs = [(ENCKE, HALLEY, 2448170.5), (HALLEY, ENCKE, 2446500.5)]
    for _ in range(40 if full else 6):
        el1, _j = gen_minor(rng, e=round(rng.uniform(0, 0.97), 6))
        el2, jde = gen_minor(rng, e=round(rng.uniform(0, 0.97), 6))
        pairs.append((el1, el2, jde))
    for el1, el2, jde in pairs:
        n += 1; nontriv += 1
        add(check_set_sequence(I, el1, el2, jde), ["Minor.set", list(el1), list(el2), jde],
            "minorset %s %s %r" % (" ".join(repr(x) for x in el1), " ".join(repr(x) for x in el2), jde))
    stats = {"evaluations": n, "distinct_nontrivial": nontriv,
             "rule": "7 planets x %d epochs in -2000..4000 (direction vs library vectors 0.02 deg, elongation vs Sun at epoch and at epoch-tau, range, Mercury/Venus maxima, Epoch unchanged); Pluto 1885-2099 (1e-4 deg, series re-evaluated); minor bodies q 0.1-30, e in [0,1] incl. 0.98/1.0 +-1e-9, any orientation, +-50 yr, plus a fixed grid + random sample of exactly parabolic bodies (e = 1.0, q 0.1-1.5, +-30 d), a fixed far-from-perihelion grid (e = 1.0 x q 0.1..30 and 11 other eccentricities incl. 1 - 1e-8 .. 1 - 1e-4 x q 0.1..0.3, t - T = +-1..49.9 years) and set()-after-construct call sequences compared bit for bit with a fresh object (1e-4 deg vs independent two-body propagation, elongation, switch-point continuity, _near_parabolic (v,r))" % (npl + 1),
             "samples": [{"input": ["Neptune", 2448976.5], "checked": "direction within 0.02 deg of Earth(t)->Neptune(t-tau); elongation vs Sun(t) [known finding] and Sun(t-tau)"}],
             "per_key_counts": per_key, "near_parabolic_no_convergence_refusals": stats_extra.get("no_convergence", 0),
             "near_parabolic_no_convergence_min_x": stats_extra.get("no_convergence_min_x"),
             "exhaustive_search": False}
    return findings, stats


def replay(argv):
    I = Impl()
    kind = argv[0]
    st = {}
    if kind == "planet":
        name, jde = argv[1], float(argv[2])
        print(name, "geocentric_position:", [float(x) for x in I.planet[name].geocentric_position(I.Epoch(jde))])
        res = check_planet(I, name, jde)
    elif kind == "pluto":
        jde = float(argv[1])
        print("Pluto.geocentric_position:", [float(x) for x in I.Pluto.geocentric_position(I.Epoch(jde))])
        res = check_pluto(I, jde)
    elif kind in ("minor", "minorhelio"):
        el = tuple(float(x) for x in argv[1:7]); jde = float(argv[7])
        res = check_minor(I, el, jde, st) if kind == "minor" else check_minor_helio(I, el, jde)
    elif kind == "minorset":
        res = check_set_sequence(I, tuple(float(x) for x in argv[1:7]), tuple(float(x) for x in argv[7:13]), float(argv[13]))
    elif kind == "nearpar":
        res = check_near_parabolic(I, float(argv[1]), float(argv[2]), float(argv[3]), st)
    else:
        raise SystemExit("unknown replay kind")
    for key, what in res:
        print("FAIL", key, ":", what)
    if not res: print("ok", st)


if __name__ == "__main__":
    replay(sys.argv[1:])
