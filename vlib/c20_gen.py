"""Generator of the C20 lemma files (run by hand: `cd /verif && /venv/bin/python -m vlib.c20_gen`).

For every public function of the translated modules it takes one documented in-domain call
(vlib/c20_api: docstring example / repository test / explicit sample), asks the IMPLEMENTATION how it
answers each ill-typed variant, asks the regenerated MODEL (coqc, discovery run) which of the
(function, parameter, constructor) triples it rejects for ALL payloads, and writes
  coq/proofs/C20/C20_types_<module>.v   one probe + lemma per (function, parameter); shape cases
  coq/proofs/C20/C20.v                  the theorem statements
  vlib/props/C20_generated.json         file list, theorem names, REQUIRED, omitted triples
  vlib/props/C20_shapes.json            recorded result shapes of every function (dynamic part)
Triples the implementation does not answer with TypeError/ValueError are omitted from the lemmas and
listed in C20_generated.json["omitted"]; the search oracle reports them (nothing is papered over)."""
import json, os, random, re, subprocess, sys, time

VERIF = os.path.dirname(os.path.dirname(os.path.abspath(__file__)))
sys.path.insert(0, VERIF)
from vlib import common as K           # noqa: E402
from vlib import c20_api as A          # noqa: E402
import translate as T                  # noqa: E402
import corr as C                       # noqa: E402

COQ_MODULES = list(A.MODS)             # every module is translated (JupiterMoons since round 4)
PDIR = os.path.join(VERIF, "coq", "proofs", "C20")
KIND = {"None": "KNone", "str": "KStr", "list": "KList", "tuple": "KTuple", "complex": "KComplex",
        "Angle": "KAngle", "Epoch": "KEpoch"}
SAMPLE = {"KNone": "INone", "KStr": '(IStr "abc")', "KList": "(IList [VFloat 1%float])",
          "KTuple": "(ITuple [VFloat 1%float])", "KComplex": "IComplex",
          "KAngle": "(IAngle [VFloat 1%float; VFloat 1e-10%float])", "KEpoch": "(IEpoch [VFloat 2451545%float])"}


def ident(s):
    return re.sub(r"[^A-Za-z0-9_]", "_", s)


def parse_sigs(bdir, mods):
    sigs = {}
    for m in mods:
        txt = open(os.path.join(bdir, "gen", "M_%s.v" % m)).read()
        for name, ps in re.findall(r"^Definition (\w+) \(([\w ]+) : val\) : val :=", txt, re.M):
            sigs[name] = (m, ps.split())
        for name, ps in re.findall(r"^(?:Fixpoint|with) (\w+)_rec \(rfuel : nat\) \(([\w ]+) : val\) \{struct rfuel\} : val :=", txt, re.M):
            sigs[name] = (m, ps.split())
        for name in re.findall(r"^Definition (\w+) \(_ : unit\) : val :=", txt, re.M):
            sigs[name] = (m, ["<unit>"])
    return sigs


def coq_name(fn):
    return ("f_%s" % fn.name) if fn.cls is None else "%s_%s" % (fn.cls, fn.name)


class Term:
    """Coq term of one call record with a hole"""

    def __init__(self, api, enc, tr, sigs):
        self.api, self.enc, self.tr, self.sigs = api, enc, tr, sigs

    def build(self, fn, call, hole=None):
        """returns Coq term text (hole variable rendered as `x`) or raises ValueError"""
        name = coq_name(fn)
        if name not in self.sigs: raise ValueError("no model definition " + name)
        env = dict(self.api.ns)
        vals = {}
        for v, s in call.setup:
            vals[v] = eval(s, env)

        def e(v):
            if v == hole: return "x"
            return self.enc.enc(vals[v])
        m = re.match(r"^r = [\w.]+\((.*)\)$", call.call)
        parts = [p for p in m.group(1).split(", ") if p]
        pos = [p for p in parts if "=" not in p]
        kws = dict(p.split("=") for p in parts if "=" in p)
        named = fn.params
        bound, extra = {}, []
        for i, v in enumerate(pos):
            if i < len(named): bound[named[i].name] = e(v)
            else: extra.append(e(v))
        kwd = []
        for k, v in kws.items():
            if any(p.name == k for p in named): bound[k] = e(v)
            else: kwd.append('(VStr "%s"%%string, %s)' % (k, e(v)))
        args = []
        for pn in self.sigs[name][1]:
            pn = pn[:-1] if pn.endswith("_") else pn
            if pn == "<unit>":
                args.append("tt"); continue
            if pn == "self":
                if fn.kind == "ctor":
                    n = len(self.tr.class_fields(fn.cls))
                    args.append("(VObj %s [%s])" % (T.CLASS_TAG[fn.cls], "; ".join(["VNone"] * n)))
                else:
                    args.append(e("s"))
            elif pn == fn.varargs:
                args.append("(VTuple [%s])" % "; ".join(extra))
            elif pn == fn.varkw:
                args.append("(VDict [%s])" % "; ".join(kwd))
            elif pn in bound:
                args.append(bound[pn])
            else:
                p = next((p for p in named if p.name == pn), None)
                if p is None or p.default is p.empty: raise ValueError("parameter %s of %s unbound" % (pn, name))
                args.append(self.enc.enc(p.default))
        if extra and fn.varargs is None: raise ValueError("too many positional arguments")
        return "(%s B0 %s)" % (name, " ".join(args))


SHP = {"float": "SFloat", "int": "SInt", "bool": "SBool", "str": "SStr", "None": "SNone"}


def shp_of(sh):
    """c20_api.shape string -> Coq shp term"""
    if sh in SHP: return SHP[sh]
    if sh in T.CLASS_TAG: return "(SObj %s)" % T.CLASS_TAG[sh]
    if sh.startswith("[") : return "SList"
    if sh.startswith("("):
        inner, depth, cur, parts = sh[1:-1], 0, "", []
        for ch in inner:
            if ch in "([": depth += 1
            if ch in ")]": depth -= 1
            if ch == "," and depth == 0:
                parts.append(cur); cur = ""
            else:
                cur += ch
        if cur: parts.append(cur)
        return "(STuple [%s])" % "; ".join(shp_of(p) for p in parts)
    return "SAny"


HEADER = """(* GENERATED by vlib/c20_gen.py from the signatures, docstrings and documented calls of
   pymeeus/%(mod)s.py -- do not edit; regenerate with `python -m vlib.c20_gen`.
   One probe per (function, parameter): the call as a function of that argument, the other
   arguments fixed to the documented sample named in the comment; the listed constructors are
   rejected with TypeError/ValueError for ALL payloads (strings, list/tuple contents, fields). *)
From Coq Require Import ZArith NArith List Bool String PrimFloat.
From PyLib Require Import PyVal PyBuiltins B64.
From Gen Require Import %(imports)s.
From Proofs.C20 Require Import C20_defs.
Import ListNotations.
Open Scope Z_scope.

"""


def imports_for(mod):
    ms = K.ALL_MODULES[:K.ALL_MODULES.index(mod) + 1]
    return " ".join("M_" + m for m in ms)


def run_coq(bdir, path, timeout=1500):
    rc, out, dt = K.sh(["coqc"] + K.coq_flags(bdir) + [path], timeout=timeout)
    return rc, out, dt


class Ctx:
    pass


def build():
    """implementation side (fast, deterministic for a given /repo): for every function of the translated
    modules one documented call, and for every (parameter, constructor) not documented as accepted the
    implementation's answer: ok (TypeError/ValueError) / accepted (a proper value) / non-value / <exception>"""
    cx = Ctx()
    cx.api = api = A.Api(COQ_MODULES)
    recs = A.explicit_calls(api) + A.harvest(api)
    obs = A.observed_kinds(api, recs)
    cx.mods = mods = K.mods(*COQ_MODULES)
    cx.bdir, cx.report, ok, msg = K.generate(mods, lambda s: None)
    assert ok, msg
    tr = T.Translator(K.REPO, mods)
    enc = C.Encoder(tr)
    sigs = parse_sigs(cx.bdir, mods)
    cx.term = term = Term(api, enc, tr, sigs)
    shapes = {k: set(v) for k, v in json.load(open(os.path.join(VERIF, "vlib", "props", "C20_shapes.json"))).items()} \
        if os.path.exists(os.path.join(VERIF, "vlib", "props", "C20_shapes.json")) else None
    by = {}
    for c in recs: by.setdefault(c.key, []).append(c)
    cx.plan, cx.no_model, cx.no_base, cx.required = {}, [], [], []
    for key in sorted(api.fns):
        fn = api.fns[key]
        rk = fn.name if fn.cls is None else "%s.%s" % (fn.cls, fn.name)
        if cx.report.get(rk) == "ok": cx.required.append(rk)
        if coq_name(fn) not in sigs:
            cx.no_model.append(key); continue
        base = None
        for c in by.get(key, []):
            try:
                term.build(fn, c)
            except Exception:
                continue
            o = A.run_call(api, c, check_state=False)
            if o.setup_exc is None and o.exc is None:
                base = (c, o); break
        if base is None:
            cx.no_base.append(key); continue
        c, o = base
        entry = {"fn": fn, "base": c, "shape": A.shape(o.result) if fn.kind != "ctor" else fn.cls,
                 "probes": {}, "nparams": len([v for v, _ in c.setup if v != "s"])}
        for label, pc in A.probe_calls(api, fn, c, obs):
            if label.startswith("arity"): continue
            pname, kind = label.split("=")
            var = next((v for (v, s), (v2, s2) in zip(pc.setup, c.setup) if s != s2), None)
            if var is None: continue
            fs, res = A.check_probe(api, fn, label, pc, check_state=False, shapes=shapes)
            try:
                t = term.build(fn, c, hole=var)
            except Exception:
                continue
            pr = entry["probes"].setdefault((pname, var), {"term": t, "ok": [], "refute": [], "accepted": []})
            if res == "ok": pr["ok"].append(KIND[kind])
            elif res == "accepted": pr["accepted"].append(KIND[kind])
            else:
                keys = [f["key"] for f in fs if f["key"].startswith(("returns-non-value:", "wrong-exception:"))]
                pr["refute"].append((KIND[kind], res, keys[0] if keys else "?", pc.code()))
        cx.plan.setdefault(fn.mod, []).append(entry)
    return cx


def pid_of(fn, pname, var):
    return "%s__%s_%s" % (ident(fn.key), ident(pname), var)


def discover(cx):
    """model side (slow, coqc): which ok-triples the regenerated model rejects for ALL payloads, which
    refuting triples it also does not reject at the concrete ill-typed value, which sample shapes hold"""
    bdir, term = cx.bdir, cx.term
    os.makedirs(os.path.join(bdir, "proofs", "C20"), exist_ok=True)
    rc, out, _ = run_coq(bdir, _copy(bdir, "C20_defs.v"))
    assert rc == 0, out
    disc = {"all": {}, "refuted": {}, "shape": {}}
    jobs = []
    for mod, entries in cx.plan.items():
        lines = [HEADER % {"mod": mod, "imports": imports_for(mod)}]
        for en in entries:
            fn, fid = en["fn"], ident(en["fn"].key)
            for (pname, var), pr in en["probes"].items():
                pid = pid_of(fn, pname, var)
                lines.append("Definition c_%s (x : fval) : fval := %s." % (pid, pr["term"]))
                for k in pr["ok"]:
                    lines.append(('Goal True. first [ timeout 20 (assert (forall i, kind_of i = %s -> rejects (c_%s (ill_val i)) = true) '
                                  'by (intros i H; destruct i; simpl in H; try discriminate H; vm_compute; reflexivity)); idtac "OK %s %s" '
                                  '| timeout 20 (let v := eval vm_compute in (tag_of (c_%s (ill_val %s))) in idtac "NO %s %s" v) '
                                  '| idtac "NO %s %s timeout" ]. exact I. Qed.')
                                 % (k, pid, pid, k, pid, SAMPLE[k], pid, k, pid, k))
                for k, res, key, code in pr["refute"]:
                    lines.append(('Goal True. first [ timeout 30 (assert (rejects (c_%s (ill_val %s)) = false) by (vm_compute; reflexivity)); idtac "REF %s %s" '
                                  '| timeout 30 (let v := eval vm_compute in (tag_of (c_%s (ill_val %s))) in idtac "NOREF %s %s" v) '
                                  '| idtac "NOREF %s %s timeout" ]. exact I. Qed.')
                                 % (pid, SAMPLE[k], pid, k, pid, SAMPLE[k], pid, k, pid, k))
            full = term.build(fn, en["base"])
            sh = shp_of(en["shape"])
            lines.append("Definition s_%s : fval := %s." % (fid, full))
            lines.append(('Goal True. first [ timeout 60 (assert (has_shape %s s_%s = true) by (vm_compute; reflexivity)); idtac "SHAPE %s 0" '
                          '| timeout 60 (assert (has_shape (STuple [SAny; %s]) s_%s = true) by (vm_compute; reflexivity)); idtac "SHAPE %s 1" '
                          '| timeout 60 (let v := eval vm_compute in (tag_of s_%s) in idtac "NOSHAPE %s" v) | idtac "NOSHAPE %s timeout" ]. exact I. Qed.')
                         % (sh, fid, fid, sh, fid, fid, fid, fid, fid))
        path = os.path.join(bdir, "proofs", "C20", "C20_discover_%s.v" % mod)
        open(path, "w").write("\n".join(lines) + "\n")
        jobs.append((mod, path))
    from concurrent.futures import ThreadPoolExecutor
    with ThreadPoolExecutor(max_workers=8) as ex:
        for (mod, path), (rc, out, dt) in zip(jobs, ex.map(lambda j: run_coq(bdir, j[1]), jobs)):
            print("discover %s: rc=%d %.0fs" % (mod, rc, dt))
            if rc != 0:
                print(out[-3000:]); raise SystemExit(1)
            for ln in out.splitlines():
                m = re.match(r"^(OK|NO) (\S+) (\S+)(?: (.*))?$", ln)
                if m: disc["all"]["%s|%s" % (m.group(2), m.group(3))] = [m.group(1), (m.group(4) or "").strip('"').replace('"%string', "")]
                m = re.match(r"^(REF|NOREF) (\S+) (\S+)(?: (.*))?$", ln)
                if m: disc["refuted"]["%s|%s" % (m.group(2), m.group(3))] = [m.group(1), (m.group(4) or "").strip('"').replace('"%string', "")]
                m = re.match(r"^SHAPE (\S+) (\d)$", ln)
                if m: disc["shape"][m.group(1)] = int(m.group(2))
    for j in jobs:
        for ext in (".v", ".vo", ".vok", ".vos", ".glob"):
            try: os.remove(j[1][:-2] + ext)
            except OSError: pass
    return disc


def emit(cx, disc):
    """text of the lemma files + the coverage table, from the implementation side of the CURRENT tree and
    the recorded model-side discovery.  Returns (texts {file: text}, meta)"""
    term = cx.term
    texts, theorems, counts = {}, [], {}
    triples = {"proved": [], "refuted": [], "refuted_not_expressible": [], "accepted_proper_value": [],
               "model_payload_dependent": [], "undiscovered": []}
    unprobed = {}
    stmts = []
    for mod in cx.mods:
        entries = cx.plan.get(mod, [])
        lines = [HEADER % {"mod": mod, "imports": imports_for(mod)}]
        pnames, rnames, snames = [], [], []
        ntrip = 0
        for en in entries:
            fn, fid = en["fn"], ident(en["fn"].key)
            lines.append("(* ---- %s    sample: %s *)" % (fn.key, en["base"].code().replace("*)", "* )")))
            nlem = 0
            for (pname, var), pr in en["probes"].items():
                pid = pid_of(fn, pname, var)
                good = []
                for k in pr["ok"]:
                    d = disc["all"].get("%s|%s" % (pid, k))
                    t = "%s:%s:%s" % (fn.key, pname, k)
                    if d is None: triples["undiscovered"].append(t)
                    elif d[0] == "OK": good.append(k); triples["proved"].append(t)
                    else: triples["model_payload_dependent"].append(t + " (model: %s)" % d[1])
                for k in pr["accepted"]:
                    triples["accepted_proper_value"].append("%s:%s:%s" % (fn.key, pname, k))
                if good:
                    ntrip += len(good); nlem += 1
                    lines.append('Definition p_%s : probe := mkProbe "%s:%s" [%s]\n  (fun x => %s).' % (
                        pid, fn.key, pname, "; ".join(good), pr["term"]))
                    lines.append("Lemma p_%s_ok : probe_ok p_%s. Proof. prove_probe. Qed." % (pid, pid))
                    pnames.append("p_" + pid)
                refs = []
                for k, res, key, code in pr["refute"]:
                    d = disc["refuted"].get("%s|%s" % (pid, k))
                    t = {"triple": "%s:%s:%s" % (fn.key, pname, k), "implementation": res, "finding_key": key, "call": code}
                    if d is None: triples["undiscovered"].append(t["triple"])
                    elif d[0] == "REF": refs.append(k); triples["refuted"].append(t)
                    else:
                        t["model"] = d[1]; triples["refuted_not_expressible"].append(t)
                if refs:
                    nlem += 1
                    if not good:
                        lines.append("Definition c_%s (x : fval) : fval := %s." % (pid, pr["term"]))
                    callee = "(p_call p_%s)" % pid if good else "c_%s" % pid
                    for k in refs:
                        lines.append("(* REFUTES the clause: the ill-typed value is accepted and answered by a non-value (finding %s) *)" % (
                            next(key for kk, res, key, code in pr["refute"] if kk == k)))
                        stmt = "rejects (%s (ill_val %s)) = false" % (callee, SAMPLE[k])
                        lines.append("Lemma r_%s_%s_refuted : %s. Proof. vm_compute. reflexivity. Qed." % (pid, k, stmt))
                        rnames.append(("r_%s_%s_refuted" % (pid, k), stmt))
            if nlem == 0:
                unprobed[fn.key] = ("no parameter besides the receiver" if en["nparams"] == 0 else
                                    "every ill-typed constructor is either documented as accepted, answered by a proper value, or not decidable in the model"
                                    if en["probes"] else "every constructor is documented as accepted for every parameter")
            if fid in disc["shape"]:
                sh = shp_of(en["shape"])
                if disc["shape"][fid] == 1: sh = "(STuple [SAny; %s])" % sh
                lines.append('Definition s_%s : shape_case := ("%s"%%string, %s, %s).' % (fid, fn.key, sh, term.build(fn, en["base"])))
                snames.append("s_" + fid)
        lines.append("")
        lines.append("Definition probes_%s : list probe := [%s]." % (mod, "; ".join(pnames)))
        proof = "(Forall_nil _)"
        for pn in reversed(pnames):
            proof = "(Forall_cons _ %s_ok %s)" % (pn, proof)
        lines.append("Lemma types_%s : Forall probe_ok probes_%s.\nProof. exact %s. Qed." % (mod, mod, proof))
        theorems.append("C20_types_%s" % mod)
        if snames:
            lines.append("Definition shape_cases_%s : list shape_case := [%s]." % (mod, "; ".join(snames)))
            lines.append("Lemma shapes_%s : forallb shape_ok shape_cases_%s = true.\nProof. vm_compute. reflexivity. Qed." % (mod, mod))
            theorems.append("C20_shapes_%s" % mod)
        texts["C20_types_%s.v" % mod] = "\n".join(lines) + "\n"
        counts[mod] = {"functions": len(entries), "probes": len(pnames), "triples": ntrip, "shape_cases": len(snames),
                       "refuted_lemmas": len(rnames)}
        stmts.append((mod, pnames, snames, rnames))

    main_lines = ["""(* Property C20 -- statements only (GENERATED by vlib/c20_gen.py; proofs are in C20_types_<module>.v).
   C20_types_<M>: for every probe of the module (a function, one of its parameters, the other arguments fixed
   to one documented sample) and every ill-typed value i (None, any string, any list, any tuple, complex, any
   object tagged Angle / Epoch) whose kind the probe LISTS, the binary64 model regenerated from /repo answers
   TypeError or ValueError.  The lists are not "every constructor": constructors the implementation answers
   with a proper value (duck typing) or whose answer the model cannot decide for all payloads are not listed
   (counts in the evidence); constructors answered by a silent NON-value refute the clause:
   C20_refuted_<M> states those witnesses (known findings returns-non-value:<fn>:<param>:<kind>).
   C20_shapes_<M>: the listed documented libm-free sample calls return the shape the implementation returned
   when the list was generated (a regression statement about the model, not a general shape theorem). *)
From Coq Require Import ZArith List Bool String PrimFloat.
From PyLib Require Import PyVal PyBuiltins B64.
From Proofs.C20 Require Import C20_defs %s.
Import ListNotations.
""" % " ".join("C20_types_%s" % m for m in cx.mods)]
    for mod, pnames, snames, rnames in stmts:
        main_lines.append("Theorem C20_types_%s : forall p i, In p probes_%s -> kind_in i (p_kinds p) = true ->\n"
                          "  rejects (p_call p (ill_val i)) = true.\nProof. exact (probes_forall _ types_%s). Qed." % (mod, mod, mod))
        if snames:
            main_lines.append("Theorem C20_shapes_%s : forall c, In c shape_cases_%s -> has_shape (snd (fst c)) (snd c) = true.\n"
                              "Proof. intros c H. exact (proj1 (forallb_forall _ _) shapes_%s c H). Qed." % (mod, mod, mod))
        if rnames:
            main_lines.append("Theorem C20_refuted_%s :\n  %s.\nProof. exact %s. Qed." % (
                mod, " /\\\n  ".join(st for _, st in rnames), _conj([rn for rn, _ in rnames])))
            theorems.append("C20_refuted_%s" % mod)
        main_lines.append("")
    for th in theorems:
        main_lines.append('Redirect "%s.assumptions" Print Assumptions %s.' % (th, th))
    texts["C20.v"] = "\n".join(main_lines) + "\n"
    order = [t for m in cx.mods for t in ("C20_types_%s" % m, "C20_shapes_%s" % m, "C20_refuted_%s" % m) if t in theorems]
    meta = {"required": sorted(set(cx.required)), "theorems": order,
            "files": ["C20_defs.v"] + ["C20_types_%s.v" % m for m in cx.mods] + ["C20.v"],
            "counts": counts, "no_model": cx.no_model, "no_base": cx.no_base, "triples": triples, "unprobed": unprobed}
    return texts, meta


def _conj(names):
    if len(names) == 1: return names[0]
    return "(conj %s %s)" % (names[0], _conj(names[1:]))


def main():
    t0 = time.time()
    pd = os.path.join(VERIF, "vlib", "props")
    # recorded shapes for the dynamic part (all 19 modules) first: the non-value rule uses them
    api2 = A.Api()
    recs2 = A.harvest(api2) + A.explicit_calls(api2)
    learn, rng = {}, random.Random(0)
    for c in recs2:
        fn = api2.fns[c.key]
        A.check_in_domain(api2, fn, c, None, None, learn)
        if A.is_free(fn):
            for _ in range(3):
                A.check_in_domain(api2, fn, A.redraw(fn, c, rng), None, None, learn)
    json.dump({k: sorted(v) for k, v in sorted(learn.items())}, open(os.path.join(pd, "C20_shapes.json"), "w"), indent=0, sort_keys=True)
    cx = build()
    disc = discover(cx)
    texts, meta = emit(cx, disc)
    for f, t in texts.items():
        open(os.path.join(PDIR, f), "w").write(t)
    old = json.load(open(os.path.join(pd, "C20_generated.json"))) if os.path.exists(os.path.join(pd, "C20_generated.json")) else {}
    meta["discovery"] = disc
    meta["corr_exclude"] = old.get("corr_exclude", [])
    json.dump(meta, open(os.path.join(pd, "C20_generated.json"), "w"), indent=1, sort_keys=True)
    tot = {k: sum(c[k] for c in meta["counts"].values()) for k in ("functions", "probes", "triples", "shape_cases", "refuted_lemmas")}
    print("generated:", tot, {k: len(v) for k, v in meta["triples"].items()}, "unprobed:", len(meta["unprobed"]),
          "no model:", cx.no_model, "no base:", cx.no_base)
    print("%.0fs" % (time.time() - t0))


def verify():
    """run on EVERY check (C20.search): the lemma files are re-derived from the CURRENT /repo (implementation
    side recomputed, model-side discovery table as recorded) and compared with the committed files.
    Returns list of (file or triple, what)"""
    pd = os.path.join(VERIF, "vlib", "props")
    g = json.load(open(os.path.join(pd, "C20_generated.json")))
    cx = build()
    texts, meta = emit(cx, g.get("discovery", {"all": {}, "refuted": {}, "shape": {}}))
    diffs = []
    for f, t in sorted(texts.items()):
        p = os.path.join(PDIR, f)
        cur = open(p).read() if os.path.exists(p) else ""
        if cur != t:
            import difflib
            d = [l for l in difflib.unified_diff(cur.splitlines(), t.splitlines(), lineterm="", n=0) if l[:1] in "+-" and l[:3] not in ("+++", "---")]
            diffs.append((f, "%d line(s) differ, first: %s" % (len(d), (d[0] if d else "")[:200])))
    und = {}
    for t in meta["triples"]["undiscovered"]:
        und.setdefault(t.split(":")[0], []).append(t.split(":", 1)[1])
    for f, ts in sorted(und.items()):
        diffs.append((f, "%d (parameter, constructor) triple(s) of the current tree that the committed lemma files do not know: %s" % (len(ts), ", ".join(ts[:8]))))
    return diffs, meta


def _copy(bdir, name):
    import shutil
    dst = os.path.join(bdir, "proofs", "C20", name)
    shutil.copy(os.path.join(PDIR, name), dst)
    return dst




def vet_cases():
    """one-off (`python -m vlib.c20_gen vet`): correspondence on the WHOLE case pool; expressions on which
    model and implementation disagree are model limitations: recorded in C20_generated.json
    (corr_exclude, corr_failing), excluded from stage C and reported"""
    from vlib.props import C20 as P
    pd = os.path.join(VERIF, "vlib", "props")
    g = json.load(open(os.path.join(pd, "C20_generated.json")))
    g["corr_exclude"] = []
    P.GEN = g
    mods = K.mods(*COQ_MODULES)
    bdir, report, ok, msg = K.generate(mods, print)
    pool = P.case_pool()
    print("case pool:", len(pool))
    r = K.correspondence(bdir, mods, pool, print, "C20gen", timeout=1700)
    print("disagreements %d, errors %d, kinds %s" % (len(r["failing"]), len(r["errors"]), r["kinds"]))
    for e in r["errors"][:10]: print("  error:", e[:300])
    g["corr_exclude"] = sorted({e for _, e, _ in r["failing"]})
    g["corr_failing"] = [(e, str(impl)[:200]) for _, e, impl in r["failing"]]
    json.dump(g, open(os.path.join(pd, "C20_generated.json"), "w"), indent=1, sort_keys=True)


if __name__ == "__main__":
    if sys.argv[1:] == ["vet"]: vet_cases()
    elif sys.argv[1:] == ["verify"]:
        d, m = verify()
        print(len(d), d[:10])
    else: main()
