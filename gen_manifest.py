#!/usr/bin/env python3
"""Writes MANIFEST.json from the table below (run after editing)."""
import json
import importlib, os, sys
sys.path.insert(0, os.path.dirname(os.path.abspath(__file__)))
CLAIMED = {}
for i in range(1, 21):
    pid = "C%02d" % i
    if not os.path.exists(os.path.join("vlib", "props", pid + ".py")): continue
    try:
        P = importlib.import_module("vlib.props." + pid)
    except Exception as e:
        print("cannot import", pid, e); continue
    m = getattr(P, "MANIFEST", None)
    if not m or not m.get("claimed", True): continue
    CLAIMED[pid] = (m.get("category", "proof"), m["text"], m["technique"], m.get("design_ref", "8/" + pid))
NA = {}
if os.path.exists("not_applicable.json"):
    import json as _j
    NA = _j.load(open("not_applicable.json"))
ALL = ["C%02d" % i for i in range(1, 21)]
NA_REASON = "not yet covered by a theorem in this development (work in progress; no check is claimed rather than a non-proof technique substituted)"
m = {
 "version": 1,
 "setup_cmd": "cd /verif && ./bin/setup",
 "hooks": {"guard": "PYMEEUS_VERIF", "enable": "none needed: libm tracing and ** tracing are done from outside by an import hook in /verif/harness/corr.py",
           "baseline_off_cmd": "cd /repo && /venv/bin/python -m pytest -ra -q -p no:cacheprovider --timeout=900 --continue-on-collection-errors",
           "source_commits": [], "add_only": True},
 "engines": [{"name": "py2coq+coq", "path": "bin/check", "serves_properties": sorted(CLAIMED),
              "kind_free_text": "Python-ast -> Gallina translator (model regenerated from /repo every run), Coq 8.16 proofs compiled against it, bit-exact correspondence via vm_compute, Python property oracle for replay search"}],
 "checks": [], "not_applicable": [],
 "notes": "See DESIGN.md. Every check: G regenerate model, C correspondence, P proofs, S search, E evidence.",
}
for p in ALL:
    if p in CLAIMED:
        cat, text, tech, ref = CLAIMED[p]
        m["checks"].append({
            "property_id": p, "quick_cmd": "./bin/check %s --tier quick" % p,
            "thorough_cmd": "./bin/check %s --tier thorough" % p,
            "evidence_file": "evidence/%s.json" % p, "replay_cmd_template": "cat {path}",
            "engine": "py2coq+coq",
            "level_claimed": {"category": cat, "text": text, "design_ref": ref},
            "level_note": "Trusted: Coq kernel incl. vm_compute and primitive floats; stdlib axiom FloatAxioms.SF2Prim_Prim2SF (and the real-number/classical axioms where Print Assumptions lists them); py2coq translator and the Python-semantics library (validated each run by bit-exact correspondence, not proved); libm as oracle; hand-written specs.",
            "technique": tech})
    else:
        m["not_applicable"].append({"property_id": p, "reason": NA.get(p, NA_REASON)})
json.dump(m, open("MANIFEST.json", "w"), indent=1)
print("claimed:", sorted(CLAIMED))
